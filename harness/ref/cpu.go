package ref

// Bus and Ports are the boundaries of the model (same shape as z80.Memory/IO).
type Bus interface {
	Get(addr uint16) uint8
	Set(addr uint16, v uint8)
}
type Ports interface {
	In(port uint8) uint8
	Out(port uint8, v uint8)
}

// CPU is the architectural state of the reference model.
type CPU struct {
	A, F, B, C, D, E, H, L         uint8
	A2, F2, B2, C2, D2, E2, H2, L2 uint8
	I, R                           uint8
	IX, IY, SP, PC                 uint16
	IFF1, IFF2                     bool
	IM                             int
	Halted                         bool

	Mem Bus
	IO  Ports

	// handler notifications (RETN/RETI executed)
	RETN, RETI int
}

// Decode tables.
const (
	TMain = iota
	TCB
	TED
	TDD
	TFD
	TDDCB
	TFDCB
)

// Info describes the Step just executed and the tolerances the oracle grants.
type Info struct {
	InScope bool  // encoding belongs to the implemented set
	Table   int   // decode table of the encoding
	Op      uint8 // last opcode byte (the one selecting the operation)
	Len     int   // instruction bytes fetched
	M1      int   // opcode fetches counted into R

	FMask   uint8 // bits of F that are compared against CPU.F
	HasAlt  bool  // an alternative flag result is also accepted ...
	AltF    uint8 // ... this one ...
	AltMask uint8 // ... under this mask
	RAlt    bool  // R may also have advanced by M1+1 (DDCB/FDCB)
	IFFAlt  bool  // IFF1 may also equal IFF2 (RETI on silicon)

	Halt    bool // HALT executed
	Block   bool // block instruction (ED A0..BB)
	Repeat  bool // block instruction left PC on itself
	Cond    bool // conditional control transfer
	Taken   bool // ... and it was taken
	IOInstr bool
}

func (c *CPU) BC() uint16     { return uint16(c.B)<<8 | uint16(c.C) }
func (c *CPU) DE() uint16     { return uint16(c.D)<<8 | uint16(c.E) }
func (c *CPU) HL() uint16     { return uint16(c.H)<<8 | uint16(c.L) }
func (c *CPU) setBC(v uint16) { c.B, c.C = uint8(v>>8), uint8(v) }
func (c *CPU) setDE(v uint16) { c.D, c.E = uint8(v>>8), uint8(v) }
func (c *CPU) setHL(v uint16) { c.H, c.L = uint8(v>>8), uint8(v) }

func (c *CPU) fetch() uint8 {
	v := c.Mem.Get(c.PC)
	c.PC++
	return v
}

func (c *CPU) fetchM1() uint8 {
	v := c.fetch()
	c.R = c.R&0x80 | (c.R+1)&0x7f
	return v
}

func (c *CPU) fetch16() uint16 {
	lo := c.fetch()
	hi := c.fetch()
	return uint16(hi)<<8 | uint16(lo)
}

func (c *CPU) read16(a uint16) uint16 {
	lo := c.Mem.Get(a)
	hi := c.Mem.Get(a + 1)
	return uint16(hi)<<8 | uint16(lo)
}

func (c *CPU) write16(a uint16, v uint16) {
	c.Mem.Set(a, uint8(v))
	c.Mem.Set(a+1, uint8(v>>8))
}

func (c *CPU) push(v uint16) {
	c.SP--
	c.Mem.Set(c.SP, uint8(v>>8))
	c.SP--
	c.Mem.Set(c.SP, uint8(v))
}

func (c *CPU) pop() uint16 {
	lo := c.Mem.Get(c.SP)
	c.SP++
	hi := c.Mem.Get(c.SP)
	c.SP++
	return uint16(hi)<<8 | uint16(lo)
}

func (c *CPU) in(p uint8) uint8 {
	if c.IO == nil {
		return 0
	}
	return c.IO.In(p)
}

func (c *CPU) out(p, v uint8) {
	if c.IO != nil {
		c.IO.Out(p, v)
	}
}

// index modes
const (
	xHL = 0
	xIX = 1
	xIY = 2
)

func (c *CPU) idxGet(idx int) uint16 {
	switch idx {
	case xIX:
		return c.IX
	case xIY:
		return c.IY
	}
	return c.HL()
}

func (c *CPU) idxSet(idx int, v uint16) {
	switch idx {
	case xIX:
		c.IX = v
	case xIY:
		c.IY = v
	default:
		c.setHL(v)
	}
}

// reg8 reads r[i] (i != 6) with H/L replaced by the index halves when idx != HL.
func (c *CPU) reg8(i int, idx int) uint8 {
	switch i {
	case 0:
		return c.B
	case 1:
		return c.C
	case 2:
		return c.D
	case 3:
		return c.E
	case 4:
		if idx == xHL {
			return c.H
		}
		return uint8(c.idxGet(idx) >> 8)
	case 5:
		if idx == xHL {
			return c.L
		}
		return uint8(c.idxGet(idx))
	case 7:
		return c.A
	}
	panic("reg8(6)")
}

func (c *CPU) setReg8(i int, idx int, v uint8) {
	switch i {
	case 0:
		c.B = v
	case 1:
		c.C = v
	case 2:
		c.D = v
	case 3:
		c.E = v
	case 4:
		if idx == xHL {
			c.H = v
		} else {
			c.idxSet(idx, c.idxGet(idx)&0x00ff|uint16(v)<<8)
		}
	case 5:
		if idx == xHL {
			c.L = v
		} else {
			c.idxSet(idx, c.idxGet(idx)&0xff00|uint16(v))
		}
	case 7:
		c.A = v
	default:
		panic("setReg8(6)")
	}
}

// rp[p]: BC DE HL SP (HL replaced by index)
func (c *CPU) rpGet(p int, idx int) uint16 {
	switch p {
	case 0:
		return c.BC()
	case 1:
		return c.DE()
	case 2:
		return c.idxGet(idx)
	}
	return c.SP
}

func (c *CPU) rpSet(p int, idx int, v uint16) {
	switch p {
	case 0:
		c.setBC(v)
	case 1:
		c.setDE(v)
	case 2:
		c.idxSet(idx, v)
	default:
		c.SP = v
	}
}

// cc[y]: NZ Z NC C PO PE P M
func Cond(y int, f uint8) bool {
	switch y {
	case 0:
		return f&FZ == 0
	case 1:
		return f&FZ != 0
	case 2:
		return f&FC == 0
	case 3:
		return f&FC != 0
	case 4:
		return f&FPV == 0
	case 5:
		return f&FPV != 0
	case 6:
		return f&FS == 0
	}
	return f&FS != 0
}

// effective address of the (HL) operand: HL, or IX/IY + signed displacement
// (fetching the displacement byte).
func (c *CPU) ea(idx int) uint16 {
	if idx == xHL {
		return c.HL()
	}
	d := c.fetch()
	return c.idxGet(idx) + uint16(int16(int8(d)))
}

// DDInScope lists the second bytes implemented after DD / FD.
func DDInScope(op uint8) bool {
	switch op {
	case 0x09, 0x19, 0x29, 0x39, 0x21, 0x22, 0x23, 0x24, 0x25, 0x26,
		0x2a, 0x2b, 0x2c, 0x2d, 0x2e, 0x34, 0x35, 0x36,
		0xe1, 0xe3, 0xe5, 0xe9, 0xf9, 0xcb:
		return true
	}
	return op >= 0x40 && op <= 0xbf && op != 0x76
}

// EDInScope lists the second bytes implemented after ED.
func EDInScope(op uint8) bool {
	x, y, z := op>>6, (op>>3)&7, op&7
	switch x {
	case 1:
		switch z {
		case 0, 1:
			return y != 6
		case 2, 3:
			return true
		case 4:
			return op == 0x44
		case 5:
			return op == 0x45 || op == 0x4d
		case 6:
			return op == 0x46 || op == 0x56 || op == 0x5e
		case 7:
			return y <= 5
		}
	case 2:
		return z <= 3 && y >= 4
	}
	return false
}

// Step executes one instruction (interrupts are not the model's business).
func (c *CPU) Step() Info {
	info := Info{InScope: true, FMask: 0xff}
	pc0 := c.PC
	op := c.fetchM1()
	info.M1 = 1
	info.Op = op
	switch op {
	case 0xcb:
		op2 := c.fetchM1()
		info.M1 = 2
		info.Table = TCB
		info.Op = op2
		c.execCB(op2, &info)
	case 0xed:
		op2 := c.fetchM1()
		info.M1 = 2
		info.Table = TED
		info.Op = op2
		if !EDInScope(op2) {
			info.InScope = false
		} else {
			c.execED(op2, &info)
		}
	case 0xdd, 0xfd:
		idx := xIX
		info.Table = TDD
		if op == 0xfd {
			idx = xIY
			info.Table = TFD
		}
		op2 := c.fetchM1()
		info.M1 = 2
		info.Op = op2
		switch {
		case !DDInScope(op2):
			info.InScope = false
		case op2 == 0xcb:
			info.Table += TDDCB - TDD
			d := c.fetch()
			op3 := c.fetch()
			info.Op = op3
			info.RAlt = true
			if op3&7 != 6 {
				info.InScope = false
			} else {
				addr := c.idxGet(idx) + uint16(int16(int8(d)))
				c.execCBmem(op3, addr, &info)
			}
		default:
			c.execMain(op2, idx, &info)
		}
	default:
		c.execMain(op, xHL, &info)
	}
	info.Len = int(uint16(c.PC - pc0))
	if info.Halt || info.Repeat || info.Taken || !info.InScope {
		// Len is meaningless after a transfer of control; recompute below.
	}
	return info
}

func (c *CPU) execCB(op uint8, info *Info) {
	z := int(op & 7)
	if z == 6 {
		c.execCBmem(op, c.HL(), info)
		return
	}
	x, y := int(op>>6), int((op>>3)&7)
	v := c.reg8(z, xHL)
	switch x {
	case 0:
		r, f := Rot(y, v, c.F)
		c.setReg8(z, xHL, r)
		c.F = f
	case 1:
		c.F = Bit(y, v, c.F)
	case 2:
		c.setReg8(z, xHL, v&^(1<<uint(y)))
	case 3:
		c.setReg8(z, xHL, v|1<<uint(y))
	}
}

func (c *CPU) execCBmem(op uint8, addr uint16, info *Info) {
	x, y := int(op>>6), int((op>>3)&7)
	v := c.Mem.Get(addr)
	switch x {
	case 0:
		r, f := Rot(y, v, c.F)
		c.Mem.Set(addr, r)
		c.F = f
	case 1:
		// Bits 3/5 of BIT on a memory operand come from the chip-internal
		// MEMPTR register: for (IX+d) that is the high byte of the effective
		// address; for (HL) it depends on earlier instructions (not modelled:
		// 0 here, which is what the hardware CRCs of zexall contain because
		// the exerciser leaves MEMPTR pointing into page 01).  Chips and
		// emulators differ, so the oracle never compares these two bits.
		f := Bit(y, v, c.F) &^ (F5 | F3)
		if info.Table == TDDCB || info.Table == TFDCB {
			f |= uint8(addr>>8) & (F5 | F3)
		}
		c.F = f
		info.FMask = 0xff &^ (F5 | F3)
	case 2:
		c.Mem.Set(addr, v&^(1<<uint(y)))
	case 3:
		c.Mem.Set(addr, v|1<<uint(y))
	}
}

func (c *CPU) execMain(op uint8, idx int, info *Info) {
	x, y, z := int(op>>6), int((op>>3)&7), int(op&7)
	p, q := y>>1, y&1
	switch x {
	case 0:
		switch z {
		case 0:
			switch y {
			case 0: // NOP
			case 1: // EX AF,AF'
				c.A, c.A2 = c.A2, c.A
				c.F, c.F2 = c.F2, c.F
			case 2: // DJNZ
				d := c.fetch()
				c.B--
				info.Cond = true
				if c.B != 0 {
					info.Taken = true
					c.PC += uint16(int16(int8(d)))
				}
			case 3: // JR
				d := c.fetch()
				c.PC += uint16(int16(int8(d)))
			default: // JR cc
				d := c.fetch()
				info.Cond = true
				if Cond(y-4, c.F) {
					info.Taken = true
					c.PC += uint16(int16(int8(d)))
				}
			}
		case 1:
			if q == 0 {
				c.rpSet(p, idx, c.fetch16())
			} else {
				r, f := Add16(c.idxGet(idx), c.rpGet(p, idx), c.F)
				c.idxSet(idx, r)
				c.F = f
			}
		case 2:
			switch y {
			case 0:
				c.Mem.Set(c.BC(), c.A)
			case 1:
				c.A = c.Mem.Get(c.BC())
			case 2:
				c.Mem.Set(c.DE(), c.A)
			case 3:
				c.A = c.Mem.Get(c.DE())
			case 4:
				c.write16(c.fetch16(), c.idxGet(idx))
			case 5:
				c.idxSet(idx, c.read16(c.fetch16()))
			case 6:
				c.Mem.Set(c.fetch16(), c.A)
			case 7:
				c.A = c.Mem.Get(c.fetch16())
			}
		case 3:
			if q == 0 {
				c.rpSet(p, idx, c.rpGet(p, idx)+1)
			} else {
				c.rpSet(p, idx, c.rpGet(p, idx)-1)
			}
		case 4, 5:
			if y == 6 {
				a := c.ea(idx)
				v := c.Mem.Get(a)
				var r, f uint8
				if z == 4 {
					r, f = Inc8(v, c.F)
				} else {
					r, f = Dec8(v, c.F)
				}
				c.Mem.Set(a, r)
				c.F = f
			} else {
				v := c.reg8(y, idx)
				var r, f uint8
				if z == 4 {
					r, f = Inc8(v, c.F)
				} else {
					r, f = Dec8(v, c.F)
				}
				c.setReg8(y, idx, r)
				c.F = f
			}
		case 6:
			if y == 6 {
				a := c.ea(idx)
				n := c.fetch()
				c.Mem.Set(a, n)
			} else {
				c.setReg8(y, idx, c.fetch())
			}
		case 7:
			switch y {
			case 0, 1, 2, 3:
				c.A, c.F = RotA(y, c.A, c.F)
			case 4:
				c.A, c.F = Daa(c.A, c.F)
			case 5:
				c.A, c.F = Cpl(c.A, c.F)
			case 6:
				c.F = Scf(c.A, c.F)
				info.FMask = 0xff &^ (F5 | F3)
			case 7:
				c.F = Ccf(c.A, c.F)
				info.FMask = 0xff &^ (F5 | F3)
			}
		}
	case 1:
		switch {
		case y == 6 && z == 6: // HALT
			c.PC--
			c.Halted = true
			info.Halt = true
		case z == 6: // LD r,(HL) / LD r,(IX+d): destination is the plain register
			a := c.ea(idx)
			c.setReg8(y, xHL, c.Mem.Get(a))
		case y == 6: // LD (HL),r / LD (IX+d),r: source is the plain register
			a := c.ea(idx)
			c.Mem.Set(a, c.reg8(z, xHL))
		default:
			c.setReg8(y, idx, c.reg8(z, idx))
		}
	case 2:
		var v uint8
		if z == 6 {
			v = c.Mem.Get(c.ea(idx))
		} else {
			v = c.reg8(z, idx)
		}
		c.A, c.F = Alu8(y, c.A, v, c.F)
	case 3:
		switch z {
		case 0: // RET cc
			info.Cond = true
			if Cond(y, c.F) {
				info.Taken = true
				c.PC = c.pop()
			}
		case 1:
			if q == 0 { // POP rp2
				v := c.pop()
				switch p {
				case 0:
					c.setBC(v)
				case 1:
					c.setDE(v)
				case 2:
					c.idxSet(idx, v)
				case 3:
					c.A, c.F = uint8(v>>8), uint8(v)
				}
			} else {
				switch p {
				case 0:
					c.PC = c.pop()
				case 1:
					c.B, c.B2 = c.B2, c.B
					c.C, c.C2 = c.C2, c.C
					c.D, c.D2 = c.D2, c.D
					c.E, c.E2 = c.E2, c.E
					c.H, c.H2 = c.H2, c.H
					c.L, c.L2 = c.L2, c.L
				case 2:
					c.PC = c.idxGet(idx)
				case 3:
					c.SP = c.idxGet(idx)
				}
			}
		case 2: // JP cc,nn
			nn := c.fetch16()
			info.Cond = true
			if Cond(y, c.F) {
				info.Taken = true
				c.PC = nn
			}
		case 3:
			switch y {
			case 0:
				c.PC = c.fetch16()
			case 1:
				panic("CB reached execMain")
			case 2:
				n := c.fetch()
				c.out(n, c.A)
				info.IOInstr = true
			case 3:
				n := c.fetch()
				c.A = c.in(n)
				info.IOInstr = true
			case 4: // EX (SP),HL
				v := c.read16(c.SP)
				c.write16(c.SP, c.idxGet(idx))
				c.idxSet(idx, v)
			case 5: // EX DE,HL (never index-substituted)
				d, h := c.DE(), c.HL()
				c.setDE(h)
				c.setHL(d)
			case 6:
				c.IFF1, c.IFF2 = false, false
			case 7:
				c.IFF1, c.IFF2 = true, true
			}
		case 4: // CALL cc,nn
			nn := c.fetch16()
			info.Cond = true
			if Cond(y, c.F) {
				info.Taken = true
				c.push(c.PC)
				c.PC = nn
			}
		case 5:
			if q == 0 { // PUSH rp2
				var v uint16
				switch p {
				case 0:
					v = c.BC()
				case 1:
					v = c.DE()
				case 2:
					v = c.idxGet(idx)
				case 3:
					v = uint16(c.A)<<8 | uint16(c.F)
				}
				c.push(v)
			} else {
				if p != 0 {
					panic("prefix reached execMain")
				}
				nn := c.fetch16()
				c.push(c.PC)
				c.PC = nn
			}
		case 6:
			n := c.fetch()
			c.A, c.F = Alu8(y, c.A, n, c.F)
		case 7:
			c.push(c.PC)
			c.PC = uint16(y) * 8
		}
	}
}

func (c *CPU) execED(op uint8, info *Info) {
	x, y, z := int(op>>6), int((op>>3)&7), int(op&7)
	p, q := y>>1, y&1
	if x == 2 {
		c.execBlock(y, z, info)
		return
	}
	switch z {
	case 0:
		v := c.in(c.C)
		c.setReg8(y, xHL, v)
		c.F = InFlags(v, c.F)
		info.IOInstr = true
	case 1:
		c.out(c.C, c.reg8(y, xHL))
		info.IOInstr = true
	case 2:
		var r uint16
		var f uint8
		if q == 0 {
			r, f = Sbc16(c.HL(), c.rpGet(p, xHL), c.F)
		} else {
			r, f = Adc16(c.HL(), c.rpGet(p, xHL), c.F)
		}
		c.setHL(r)
		c.F = f
	case 3:
		nn := c.fetch16()
		if q == 0 {
			c.write16(nn, c.rpGet(p, xHL))
		} else {
			c.rpSet(p, xHL, c.read16(nn))
		}
	case 4:
		c.A, c.F = Neg(c.A)
	case 5:
		if op == 0x45 {
			c.RETN++
			c.PC = c.pop()
			c.IFF1 = c.IFF2
		} else {
			c.RETI++
			c.PC = c.pop()
			info.IFFAlt = true
		}
	case 6:
		switch op {
		case 0x46:
			c.IM = 0
		case 0x56:
			c.IM = 1
		case 0x5e:
			c.IM = 2
		}
	case 7:
		switch y {
		case 0:
			c.I = c.A
		case 1:
			c.R = c.A
		case 2:
			c.A = c.I
			c.F = LdAIR(c.A, c.F, c.IFF2)
		case 3:
			c.A = c.R
			c.F = LdAIR(c.A, c.F, c.IFF2)
		case 4:
			a := c.HL()
			var m uint8
			c.A, m, c.F = Rrd(c.A, c.Mem.Get(a), c.F)
			c.Mem.Set(a, m)
		case 5:
			a := c.HL()
			var m uint8
			c.A, m, c.F = Rld(c.A, c.Mem.Get(a), c.F)
			c.Mem.Set(a, m)
		}
	}
}

// execBlock: y = 4 I, 5 D, 6 IR, 7 DR; z = 0 LD, 1 CP, 2 IN, 3 OUT.
func (c *CPU) execBlock(y, z int, info *Info) {
	info.Block = true
	step := uint16(1)
	if y&1 == 1 {
		step = 0xffff
	}
	rep := y >= 6
	again := false
	switch z {
	case 0: // LDI / LDD
		v := c.Mem.Get(c.HL())
		c.Mem.Set(c.DE(), v)
		c.setHL(c.HL() + step)
		c.setDE(c.DE() + step)
		c.setBC(c.BC() - 1)
		n := c.A + v
		f := c.F & (FS | FZ | FC)
		f |= b2f(c.BC() != 0, FPV)
		f |= n & F3
		f |= b2f(n&2 != 0, F5)
		c.F = f
		again = c.BC() != 0
	case 1: // CPI / CPD
		v := c.Mem.Get(c.HL())
		r := c.A - v
		h := c.A&15 < v&15
		c.setHL(c.HL() + step)
		c.setBC(c.BC() - 1)
		n := r
		if h {
			n--
		}
		f := c.F&FC | FN | r&FS
		f |= b2f(r == 0, FZ)
		f |= b2f(h, FH)
		f |= b2f(c.BC() != 0, FPV)
		f |= n & F3
		f |= b2f(n&2 != 0, F5)
		c.F = f
		again = c.BC() != 0 && r != 0
	case 2: // INI / IND
		info.IOInstr = true
		v := c.in(c.C)
		c.Mem.Set(c.HL(), v)
		c.setHL(c.HL() + step)
		c.B--
		k := int(v) + int(uint8(c.C+uint8(step)))
		c.blockIOFlags(v, k, info)
		again = c.B != 0
	case 3: // OUTI / OUTD
		info.IOInstr = true
		v := c.Mem.Get(c.HL())
		c.B--
		c.out(c.C, v)
		c.setHL(c.HL() + step)
		k := int(v) + int(c.L)
		c.blockIOFlags(v, k, info)
		again = c.B != 0
	}
	if rep && again {
		c.PC -= 2
		info.Repeat = true
		if z <= 1 {
			// while LDIR/LDDR/CPIR/CPDR repeat, silicon takes bits 3/5 from the
			// high byte of PC (visible only when interrupted mid-operation);
			// implementations differ, so these two bits are not compared on a
			// repeating Step (they are on the final one).
			info.FMask &^= F5 | F3
		}
	}
}

// blockIOFlags: primary expectation = documented (Z from B, N set, C kept, the
// rest unspecified); alternative = the silicon formula, whole byte.
func (c *CPU) blockIOFlags(v uint8, k int, info *Info) {
	doc := c.F&^(FZ|FN) | FN | b2f(c.B == 0, FZ)
	sil := sz53(c.B)
	sil |= b2f(v&0x80 != 0, FN)
	sil |= b2f(k > 255, FH|FC)
	sil |= b2f(Parity(uint8(k&7)^c.B), FPV)
	c.F = doc
	info.FMask = FZ | FN | FC
	info.HasAlt = true
	info.AltF = sil
	info.AltMask = 0xff
}
