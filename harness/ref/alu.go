// Package ref is an independent Z80 reference model written from the Zilog
// Z80 CPU User Manual and Young's "The Undocumented Z80 Documented".  It is
// structured differently from the code under test on purpose: decode by the
// octal fields x/y/z/p/q, flags from arithmetic definitions (nibble sums, signed
// range checks, counting parity) rather than carry-vector tricks.
package ref

// Flag bit positions.
const (
	FC  = 0x01
	FN  = 0x02
	FPV = 0x04
	F3  = 0x08
	FH  = 0x10
	F5  = 0x20
	FZ  = 0x40
	FS  = 0x80
)

// Parity reports even parity by counting.
func Parity(v uint8) bool {
	n := 0
	for i := uint(0); i < 8; i++ {
		if (v>>i)&1 == 1 {
			n++
		}
	}
	return n%2 == 0
}

func sz53(v uint8) uint8 {
	f := v & (FS | F5 | F3)
	if v == 0 {
		f |= FZ
	}
	return f
}

func b2f(c bool, f uint8) uint8 {
	if c {
		return f
	}
	return 0
}

// Add8 returns a+b+cin and the complete flag byte.
func Add8(a, b, cin uint8) (uint8, uint8) {
	sum := int(a) + int(b) + int(cin)
	r := uint8(sum)
	f := sz53(r)
	f |= b2f(int(a&15)+int(b&15)+int(cin) > 15, FH)
	s := int(int8(a)) + int(int8(b)) + int(cin)
	f |= b2f(s > 127 || s < -128, FPV)
	f |= b2f(sum > 255, FC)
	return r, f
}

// Sub8 returns a-b-cin and the complete flag byte (bits 3/5 from the result).
func Sub8(a, b, cin uint8) (uint8, uint8) {
	diff := int(a) - int(b) - int(cin)
	r := uint8(diff)
	f := sz53(r) | FN
	f |= b2f(int(a&15)-int(b&15)-int(cin) < 0, FH)
	s := int(int8(a)) - int(int8(b)) - int(cin)
	f |= b2f(s > 127 || s < -128, FPV)
	f |= b2f(diff < 0, FC)
	return r, f
}

// Cp8 returns the flags of CP: as SUB but bits 3/5 come from the operand.
func Cp8(a, b uint8) uint8 {
	_, f := Sub8(a, b, 0)
	return f&^(F5|F3) | b&(F5|F3)
}

func And8(a, b uint8) (uint8, uint8) {
	r := a & b
	return r, sz53(r) | FH | b2f(Parity(r), FPV)
}
func Or8(a, b uint8) (uint8, uint8) {
	r := a | b
	return r, sz53(r) | b2f(Parity(r), FPV)
}
func Xor8(a, b uint8) (uint8, uint8) {
	r := a ^ b
	return r, sz53(r) | b2f(Parity(r), FPV)
}

// Alu8 performs alu[y] A,v with incoming flags f; returns new A and F.
// y: 0 ADD 1 ADC 2 SUB 3 SBC 4 AND 5 XOR 6 OR 7 CP.
func Alu8(y int, a, v, f uint8) (uint8, uint8) {
	c := f & FC
	switch y {
	case 0:
		return Add8(a, v, 0)
	case 1:
		return Add8(a, v, c)
	case 2:
		return Sub8(a, v, 0)
	case 3:
		return Sub8(a, v, c)
	case 4:
		return And8(a, v)
	case 5:
		return Xor8(a, v)
	case 6:
		return Or8(a, v)
	default:
		return a, Cp8(a, v)
	}
}

// Inc8 / Dec8: C preserved.
func Inc8(v, f uint8) (uint8, uint8) {
	r := v + 1
	nf := f&FC | sz53(r)
	nf |= b2f(r&15 == 0, FH)
	nf |= b2f(v == 0x7f, FPV)
	return r, nf
}
func Dec8(v, f uint8) (uint8, uint8) {
	r := v - 1
	nf := f&FC | sz53(r) | FN
	nf |= b2f(r&15 == 15, FH)
	nf |= b2f(v == 0x80, FPV)
	return r, nf
}

// Rot performs rot[y] on v (CB-table semantics: S Z 5 3 P from result, H=N=0).
// y: 0 RLC 1 RRC 2 RL 3 RR 4 SLA 5 SRA 6 SLL 7 SRL.
func Rot(y int, v, f uint8) (uint8, uint8) {
	cin := f & FC
	var r, cout uint8
	switch y {
	case 0:
		cout = v >> 7
		r = v<<1 | cout
	case 1:
		cout = v & 1
		r = v>>1 | cout<<7
	case 2:
		cout = v >> 7
		r = v<<1 | cin
	case 3:
		cout = v & 1
		r = v>>1 | cin<<7
	case 4:
		cout = v >> 7
		r = v << 1
	case 5:
		cout = v & 1
		r = v>>1 | v&0x80
	case 6:
		cout = v >> 7
		r = v<<1 | 1
	default:
		cout = v & 1
		r = v >> 1
	}
	return r, sz53(r) | b2f(Parity(r), FPV) | cout
}

// RotA performs RLCA/RRCA/RLA/RRA (y=0..3): S Z P/V kept, H=N=0, 5/3 from A'.
func RotA(y int, a, f uint8) (uint8, uint8) {
	r, rf := Rot(y, a, f)
	return r, f&(FS|FZ|FPV) | r&(F5|F3) | rf&FC
}

// Bit returns the flags of BIT b,v.  Bits 3/5 are taken from v (valid for the
// register forms; callers mask them for memory operands).
func Bit(b int, v, f uint8) uint8 {
	nf := f&FC | FH | v&(F5|F3)
	if v&(1<<uint(b)) == 0 {
		nf |= FZ | FPV
	} else if b == 7 {
		nf |= FS
	}
	return nf
}

// Daa implements the manual's table.
func Daa(a, f uint8) (uint8, uint8) {
	lo, hi := a&15, a>>4
	c, h, n := f&FC != 0, f&FH != 0, f&FN != 0
	var diff uint8
	var cout bool
	switch {
	case !c && hi <= 9 && !h && lo <= 9:
		diff = 0x00
	case !c && hi <= 9 && h && lo <= 9:
		diff = 0x06
	case !c && hi <= 8 && lo >= 10:
		diff = 0x06
	case !c && hi >= 10 && !h && lo <= 9:
		diff = 0x60
	case c && !h && lo <= 9:
		diff = 0x60
	case c && h && lo <= 9:
		diff = 0x66
	case c && lo >= 10:
		diff = 0x66
	case !c && hi >= 9 && lo >= 10:
		diff = 0x66
	case !c && hi >= 10 && h && lo <= 9:
		diff = 0x66
	}
	switch {
	case c:
		cout = true
	case hi <= 9 && lo <= 9:
		cout = false
	case hi <= 8 && lo >= 10:
		cout = false
	default:
		cout = true
	}
	var hout bool
	if !n {
		hout = lo >= 10
	} else {
		hout = h && lo <= 5
	}
	var r uint8
	if n {
		r = a - diff
	} else {
		r = a + diff
	}
	nf := sz53(r) | b2f(Parity(r), FPV) | f&FN | b2f(hout, FH) | b2f(cout, FC)
	return r, nf
}

// Add16 is ADD HL/IX/IY,ss: S Z P/V kept.
func Add16(x, y uint16, f uint8) (uint16, uint8) {
	sum := uint32(x) + uint32(y)
	r := uint16(sum)
	nf := f & (FS | FZ | FPV)
	nf |= uint8(r>>8) & (F5 | F3)
	nf |= b2f((x&0xfff)+(y&0xfff) > 0xfff, FH)
	nf |= b2f(sum > 0xffff, FC)
	return r, nf
}

func Adc16(x, y uint16, f uint8) (uint16, uint8) {
	c := uint32(f & FC)
	sum := uint32(x) + uint32(y) + c
	r := uint16(sum)
	nf := uint8(r>>8) & (FS | F5 | F3)
	nf |= b2f(r == 0, FZ)
	nf |= b2f(uint32(x&0xfff)+uint32(y&0xfff)+c > 0xfff, FH)
	s := int(int16(x)) + int(int16(y)) + int(c)
	nf |= b2f(s > 32767 || s < -32768, FPV)
	nf |= b2f(sum > 0xffff, FC)
	return r, nf
}

func Sbc16(x, y uint16, f uint8) (uint16, uint8) {
	c := int(f & FC)
	diff := int(x) - int(y) - c
	r := uint16(diff)
	nf := uint8(r>>8)&(FS|F5|F3) | FN
	nf |= b2f(r == 0, FZ)
	nf |= b2f(int(x&0xfff)-int(y&0xfff)-c < 0, FH)
	s := int(int16(x)) - int(int16(y)) - c
	nf |= b2f(s > 32767 || s < -32768, FPV)
	nf |= b2f(diff < 0, FC)
	return r, nf
}

// Neg: 0 - A.
func Neg(a uint8) (uint8, uint8) { return Sub8(0, a, 0) }

// Cpl: H=N=1, 5/3 from A'.
func Cpl(a, f uint8) (uint8, uint8) {
	r := ^a
	return r, f&(FS|FZ|FPV|FC) | FH | FN | r&(F5|F3)
}

// Scf / Ccf: bits 3/5 returned as "A | F" style is chip dependent; callers
// mask them.  Here they are taken from A.
func Scf(a, f uint8) uint8 { return f&(FS|FZ|FPV) | FC | a&(F5|F3) }
func Ccf(a, f uint8) uint8 {
	nf := f&(FS|FZ|FPV) | a&(F5|F3)
	if f&FC != 0 {
		nf |= FH
	} else {
		nf |= FC
	}
	return nf
}

// Rld / Rrd: returns new A, new memory byte, new F.
func Rld(a, m, f uint8) (uint8, uint8, uint8) {
	na := a&0xf0 | m>>4
	nm := m<<4 | a&0x0f
	return na, nm, f&FC | sz53(na) | b2f(Parity(na), FPV)
}
func Rrd(a, m, f uint8) (uint8, uint8, uint8) {
	na := a&0xf0 | m&0x0f
	nm := a<<4 | m>>4
	return na, nm, f&FC | sz53(na) | b2f(Parity(na), FPV)
}

// InFlags: IN r,(C).
func InFlags(v, f uint8) uint8 { return f&FC | sz53(v) | b2f(Parity(v), FPV) }

// LdAIR: LD A,I / LD A,R.
func LdAIR(v, f uint8, iff2 bool) uint8 { return f&FC | sz53(v) | b2f(iff2, FPV) }
