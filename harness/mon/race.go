package mon

import (
	"os"
	"path/filepath"
	"strings"
)

// RaceLogPrefix extracts log_path from GORACE ("" if unset).
func RaceLogPrefix() string {
	for _, f := range strings.Fields(os.Getenv("GORACE")) {
		if strings.HasPrefix(f, "log_path=") {
			return strings.TrimPrefix(f, "log_path=")
		}
	}
	return ""
}

// RaceReport is one "WARNING: DATA RACE" block.
type RaceReport struct {
	Text      string
	InTarget  bool   // a frame of the code under test (not the harness) appears
	Signature string // outermost target frames, for de-duplication
}

// RaceReports reads the race detector's log files (log_path.<pid>) and splits
// them into report blocks.  target is the import path of the code under test,
// harness the import-path prefix of the monitor's own code.
func RaceReports(prefix, target, harness string) []RaceReport {
	if prefix == "" {
		return nil
	}
	files, _ := filepath.Glob(prefix + ".*")
	var out []RaceReport
	for _, f := range files {
		b, err := os.ReadFile(f)
		if err != nil {
			continue
		}
		blocks := strings.Split(string(b), "WARNING: DATA RACE")
		for _, blk := range blocks[1:] {
			if i := strings.Index(blk, "=================="); i >= 0 {
				blk = blk[:i]
			}
			rr := RaceReport{Text: "WARNING: DATA RACE" + blk}
			var sig []string
			for _, line := range strings.Split(blk, "\n") {
				l := strings.TrimSpace(line)
				if strings.HasPrefix(l, target+".") || strings.HasPrefix(l, target+"/") {
					if !strings.HasPrefix(l, harness) {
						rr.InTarget = true
						if j := strings.LastIndex(l, "("); j > 0 {
							l = l[:j]
						}
						if len(sig) < 4 {
							sig = append(sig, l)
						}
					}
				}
			}
			rr.Signature = strings.Join(sig, " | ")
			out = append(out, rr)
		}
	}
	return out
}
