package mon

import (
	"encoding/json"
	"fmt"
	"os"
	"path/filepath"
	"sort"
	"sync"
	"time"
)

// VerifDir is where evidence/, replay/ and known_findings.json live.
func VerifDir() string {
	if d := os.Getenv("VERIF_DIR"); d != "" {
		return d
	}
	return "/verif"
}

// OutDir is where evidence/ and replay/ are written (VERIF_OUT, default
// VerifDir()); mutant triage points it elsewhere so that the committed evidence
// is only ever written by runs against /repo itself.
func OutDir() string {
	if d := os.Getenv("VERIF_OUT"); d != "" {
		return d
	}
	return VerifDir()
}

// Finding is one entry of known_findings.json (committed, never written at
// run time).
type Finding struct {
	Property    string `json:"property"`
	Signature   string `json:"signature"`
	Status      string `json:"status"` // "known" | "fixed"
	Commit      string `json:"commit,omitempty"`
	Description string `json:"description"`
}

func loadFindings() []Finding {
	b, err := os.ReadFile(filepath.Join(VerifDir(), "known_findings.json"))
	if err != nil {
		return nil
	}
	var f struct {
		Findings []Finding `json:"findings"`
	}
	if json.Unmarshal(b, &f) != nil {
		return nil
	}
	return f.Findings
}

// Report collects verdicts and evidence for one check run.
type Report struct {
	Prop  string
	Tier  string
	Seed  int64
	Level string

	mu         sync.Mutex
	cov        map[string]interface{}
	samples    []interface{}
	assume     []string
	violations int
	printed    int
	seenSig    map[string]int
	known      map[string]int
	knownDesc  map[string]string
	inconcl    []string
	findings   []Finding
	start      time.Time
	Replay     bool // replay mode: do not write evidence
}

func NewReport(prop, tier string, seed int64, level string) *Report {
	return &Report{
		Prop: prop, Tier: tier, Seed: seed, Level: level,
		cov:       map[string]interface{}{},
		known:     map[string]int{},
		knownDesc: map[string]string{},
		findings:  loadFindings(),
		start:     time.Now(),
	}
}

func (r *Report) Set(key string, v interface{}) {
	r.mu.Lock()
	r.cov[key] = v
	r.mu.Unlock()
}

// Add adds n to an integer coverage counter.
func (r *Report) Add(key string, n int64) {
	r.mu.Lock()
	cur, _ := r.cov[key].(int64)
	r.cov[key] = cur + n
	r.mu.Unlock()
}

func (r *Report) Get(key string) int64 {
	r.mu.Lock()
	defer r.mu.Unlock()
	cur, _ := r.cov[key].(int64)
	return cur
}

// Sample records a literal case (at most 12 are kept).
func (r *Report) Sample(v interface{}) {
	r.mu.Lock()
	if len(r.samples) < 12 {
		r.samples = append(r.samples, v)
	}
	r.mu.Unlock()
}

func (r *Report) NSamples() int {
	r.mu.Lock()
	defer r.mu.Unlock()
	return len(r.samples)
}

func (r *Report) Assume(s string) {
	r.mu.Lock()
	r.assume = append(r.assume, s)
	r.mu.Unlock()
}

// Inconclusive records a reason why the run cannot give a verdict.
func (r *Report) Inconclusive(reason string) {
	r.mu.Lock()
	r.inconcl = append(r.inconcl, reason)
	r.mu.Unlock()
	fmt.Printf("INCONCLUSIVE property=%s %s\n", r.Prop, reason)
}

// Violation reports a violation with the given signature and witness.  If the
// signature matches a "known" entry of known_findings.json it is counted as a
// known finding instead.  Returns true if it counted as a real violation.
func (r *Report) Violation(sig string, witness interface{}) bool {
	r.mu.Lock()
	defer r.mu.Unlock()
	for _, f := range r.findings {
		if f.Property == r.Prop && f.Status == "known" && f.Signature == sig {
			r.known[sig]++
			r.knownDesc[sig] = f.Description
			return false
		}
	}
	r.violations++
	if r.seenSig == nil {
		r.seenSig = map[string]int{}
	}
	r.seenSig[sig]++
	if r.seenSig[sig] == 1 && r.printed < 10 {
		r.printed++
		path := r.writeReplay(sig, witness)
		fmt.Printf("VIOLATION property=%s replay=%s\n", r.Prop, path)
		fmt.Printf("  signature: %s\n", sig)
		if b, err := json.Marshal(witness); err == nil {
			s := string(b)
			if len(s) > 1500 {
				s = s[:1500] + "..."
			}
			fmt.Printf("  witness: %s\n", s)
		}
	}
	return true
}

// SawSignature reports whether a violation or known finding with this
// signature was raised in this run.
func (r *Report) SawSignature(sig string) bool {
	r.mu.Lock()
	defer r.mu.Unlock()
	return r.seenSig[sig] > 0 || r.known[sig] > 0
}

func (r *Report) Violations() int {
	r.mu.Lock()
	defer r.mu.Unlock()
	return r.violations
}

func (r *Report) writeReplay(sig string, witness interface{}) string {
	dir := filepath.Join(OutDir(), "replay")
	os.MkdirAll(dir, 0o755)
	path := filepath.Join(dir, fmt.Sprintf("%s-%s-seed%d-%d.json", r.Prop, r.Tier, r.Seed, r.printed))
	doc := map[string]interface{}{
		"property": r.Prop, "tier": r.Tier, "seed": r.Seed,
		"signature": sig, "witness": witness,
	}
	b, _ := json.MarshalIndent(doc, "", " ")
	os.WriteFile(path, b, 0o644)
	return path
}

// Finish writes the evidence file, prints KNOWN-FINDING lines and returns the
// process exit status: 0 held, 1 violated, 3 inconclusive.
func (r *Report) Finish() int {
	r.mu.Lock()
	defer r.mu.Unlock()
	sigs := make([]string, 0, len(r.known))
	for s := range r.known {
		sigs = append(sigs, s)
	}
	sort.Strings(sigs)
	kf := map[string]interface{}{}
	for _, s := range sigs {
		fmt.Printf("KNOWN-FINDING: property=%s %s [signature %s, %d occurrences in this run]\n",
			r.Prop, r.knownDesc[s], s, r.known[s])
		kf[s] = r.known[s]
	}
	if len(kf) > 0 {
		r.cov["known_findings"] = kf
	}
	if len(r.seenSig) > 0 {
		r.cov["violation_signatures"] = r.seenSig
		if len(r.seenSig) > r.printed {
			fmt.Printf("  (%d further violation signatures not printed)\n", len(r.seenSig)-r.printed)
		}
	}
	if r.assume == nil {
		r.assume = []string{}
	}
	if r.samples == nil {
		r.samples = []interface{}{}
	}
	r.cov["samples"] = r.samples
	if len(r.inconcl) > 0 {
		r.cov["inconclusive"] = r.inconcl
	}
	wall := time.Since(r.start).Seconds()
	ev := map[string]interface{}{
		"property_id": r.Prop,
		"tier":        r.Tier,
		"seed":        r.Seed,
		"level":       r.Level,
		"coverage":    r.cov,
		"assumptions": r.assume,
		"wall_s":      float64(int(wall*1000)) / 1000,
		"violations":  r.violations,
	}
	if !r.Replay {
		dir := filepath.Join(OutDir(), "evidence")
		os.MkdirAll(dir, 0o755)
		b, _ := json.MarshalIndent(ev, "", " ")
		if err := os.WriteFile(filepath.Join(dir, r.Prop+".json"), append(b, '\n'), 0o644); err != nil {
			fmt.Printf("INCONCLUSIVE property=%s cannot write evidence: %v\n", r.Prop, err)
			return 3
		}
	}
	ev2, _ := r.cov["evaluations"].(int64)
	dn, _ := r.cov["distinct_nontrivial"].(int64)
	fmt.Printf("SUMMARY property=%s tier=%s seed=%d evaluations=%d distinct_nontrivial=%d violations=%d known=%d wall=%.1fs\n",
		r.Prop, r.Tier, r.Seed, ev2, dn, r.violations, len(r.known), wall)
	if r.violations > 0 {
		return 1
	}
	if len(r.inconcl) > 0 {
		return 3
	}
	return 0
}

// ---------------------------------------------------------------------------

// Distinct counts distinct 64-bit keys exactly up to a cap (beyond the cap new
// keys are not stored and not counted: the count is then a lower bound).
type Distinct struct {
	mu     sync.Mutex
	shards [64]map[uint64]struct{}
	n      int64
	Cap    int64
	Capped bool
}

func NewDistinct(cap int64) *Distinct {
	d := &Distinct{Cap: cap}
	for i := range d.shards {
		d.shards[i] = map[uint64]struct{}{}
	}
	return d
}

// Add inserts a key; reports whether it was new.
func (d *Distinct) Add(k uint64) bool {
	d.mu.Lock()
	defer d.mu.Unlock()
	s := d.shards[k&63]
	if _, ok := s[k]; ok {
		return false
	}
	if d.n >= d.Cap {
		d.Capped = true
		return false
	}
	s[k] = struct{}{}
	d.n++
	return true
}

func (d *Distinct) N() int64 {
	d.mu.Lock()
	defer d.mu.Unlock()
	return d.n
}

// Merge adds all keys of o.
func (d *Distinct) Merge(o *Distinct) {
	for i := range o.shards {
		for k := range o.shards[i] {
			d.Add(k)
		}
	}
}
