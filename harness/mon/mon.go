// Package mon holds the runtime monitors shared by all property checks: a
// seeded PRNG, recording memory / port implementations (bus monitor), handler
// counters and a log monitor.  Nothing in here knows about Z80 semantics.
package mon

import (
	"bytes"
	"log"
	"sort"
	"sync"
)

// ---------------------------------------------------------------------------
// PRNG: splitmix64 — every random choice of every check comes from here, so a
// run is a pure function of (seed, tier).

type Rng struct{ s uint64 }

func NewRng(seed uint64) *Rng { return &Rng{s: seed*0x9E3779B97F4A7C15 + 0x1234567} }

func Mix(x uint64) uint64 {
	x += 0x9E3779B97F4A7C15
	x = (x ^ (x >> 30)) * 0xBF58476D1CE4E5B9
	x = (x ^ (x >> 27)) * 0x94D049BB133111EB
	return x ^ (x >> 31)
}

// Hash combines values into one 64-bit hash.
func Hash(vs ...uint64) uint64 {
	h := uint64(0x243F6A8885A308D3)
	for _, v := range vs {
		h = Mix(h ^ v)
	}
	return h
}

func (r *Rng) U64() uint64 {
	r.s += 0x9E3779B97F4A7C15
	x := r.s
	x = (x ^ (x >> 30)) * 0xBF58476D1CE4E5B9
	x = (x ^ (x >> 27)) * 0x94D049BB133111EB
	return x ^ (x >> 31)
}
func (r *Rng) U8() uint8   { return uint8(r.U64() >> 32) }
func (r *Rng) U16() uint16 { return uint16(r.U64() >> 32) }
func (r *Rng) Bool() bool  { return r.U64()>>63 != 0 }

// Intn returns a value in [0,n).
func (r *Rng) Intn(n int) int {
	if n <= 0 {
		return 0
	}
	return int((r.U64() >> 11) % uint64(n))
}

// Fork derives an independent generator.
func (r *Rng) Fork(tag uint64) *Rng { return NewRng(Hash(r.U64(), tag)) }

// ---------------------------------------------------------------------------
// Bus monitor

// Access is one bus event.
type Access struct {
	Kind uint8 // 'R' memory read, 'W' memory write, 'I' port in, 'O' port out
	Addr uint16
	Val  uint8
}

// Mem is a full 64 KiB memory with an undo list (cheap reset between cases),
// an optional per-Step access log and an access counter with an optional
// callback / budget (logical watchdog).
type Mem struct {
	Data [65536]uint8

	undoA []uint16
	undoV []uint8

	Logging bool
	Log     []Access

	Count  uint64 // accesses since last ResetCount
	Budget uint64 // 0 = unlimited; exceeding panics with ErrBudget
	Hook   func(m *Mem, a Access)

	// ROFrom != 0: addresses >= ROFrom do not keep writes (ROM, unpopulated
	// space, the area behind a short DumbMemory); the write is still an access
	// (logged, counted).  Place bypasses it.
	ROFrom uint32
}

// BudgetExceeded is the panic value of the logical watchdog.
type BudgetExceeded struct{ Count uint64 }

// Fill fills the base image with a seed-determined pseudo-random pattern and
// forgets the undo list.
func (m *Mem) Fill(seed uint64) {
	var x uint64
	for i := 0; i < 65536; i += 8 {
		x = Mix(seed ^ uint64(i)*0x100000001B3)
		for j := 0; j < 8; j++ {
			m.Data[i+j] = uint8(x >> (8 * j))
		}
	}
	m.undoA = m.undoA[:0]
	m.undoV = m.undoV[:0]
}

// FillByte fills all memory with one value.
func (m *Mem) FillByte(v uint8) {
	for i := range m.Data {
		m.Data[i] = v
	}
	m.undoA = m.undoA[:0]
	m.undoV = m.undoV[:0]
}

func (m *Mem) tick(a Access) {
	m.Count++
	if m.Logging {
		m.Log = append(m.Log, a)
	}
	if m.Hook != nil {
		m.Hook(m, a)
	}
	if m.Budget != 0 && m.Count > m.Budget {
		panic(BudgetExceeded{m.Count})
	}
}

func (m *Mem) Get(addr uint16) uint8 {
	v := m.Data[addr]
	if m.Logging || m.Hook != nil || m.Budget != 0 {
		m.tick(Access{'R', addr, v})
	} else {
		m.Count++
	}
	return v
}

func (m *Mem) Set(addr uint16, v uint8) {
	if m.ROFrom == 0 || uint32(addr) < m.ROFrom {
		m.undoA = append(m.undoA, addr)
		m.undoV = append(m.undoV, m.Data[addr])
		m.Data[addr] = v
	}
	if m.Logging || m.Hook != nil || m.Budget != 0 {
		m.tick(Access{'W', addr, v})
	} else {
		m.Count++
	}
}

// Place stores bytes without logging (test set-up); undone by Reset.
func (m *Mem) Place(addr uint16, bs ...uint8) {
	for _, b := range bs {
		m.undoA = append(m.undoA, addr)
		m.undoV = append(m.undoV, m.Data[addr])
		m.Data[addr] = b
		addr++
	}
}

// Mark returns a position in the undo list; Dirty(mark) lists addresses
// written since.
func (m *Mem) Mark() int { return len(m.undoA) }

// Dirty returns the addresses modified since mark (with duplicates).
func (m *Mem) Dirty(mark int) []uint16 { return m.undoA[mark:] }

// Reset undoes every Set/Place since the last Fill and clears the log.
func (m *Mem) Reset() {
	for i := len(m.undoA) - 1; i >= 0; i-- {
		m.Data[m.undoA[i]] = m.undoV[i]
	}
	m.undoA = m.undoA[:0]
	m.undoV = m.undoV[:0]
	m.Log = m.Log[:0]
	m.Count = 0
}

func (m *Mem) ClearLog() { m.Log = m.Log[:0] }

// IO is the port monitor.  In returns a fresh seed-determined byte for every
// call, so the value that must land in a register is known and distinct.
type IO struct {
	Seed uint64
	N    uint64
	Log  []Access
	Hook func(io *IO, a Access)
	// Null models "no device attached" for specifications: reads give 0, writes
	// vanish, nothing is logged.
	Null bool
}

func (io *IO) In(port uint8) uint8 {
	if io.Null {
		return 0
	}
	v := uint8(Hash(io.Seed, uint64(port), io.N) >> 24)
	io.N++
	a := Access{'I', uint16(port), v}
	io.Log = append(io.Log, a)
	if io.Hook != nil {
		io.Hook(io, a)
	}
	return v
}

func (io *IO) Out(port uint8, v uint8) {
	if io.Null {
		return
	}
	io.N++
	a := Access{'O', uint16(port), v}
	io.Log = append(io.Log, a)
	if io.Hook != nil {
		io.Hook(io, a)
	}
}

func (io *IO) Reset(seed uint64) {
	io.Seed = seed
	io.N = 0
	io.Log = io.Log[:0]
}

// SortedCopy returns a sorted copy of an access list (multiset comparison).
func SortedCopy(as []Access) []Access {
	c := make([]Access, len(as))
	copy(c, as)
	sort.Slice(c, func(i, j int) bool {
		if c[i].Kind != c[j].Kind {
			return c[i].Kind < c[j].Kind
		}
		if c[i].Addr != c[j].Addr {
			return c[i].Addr < c[j].Addr
		}
		return c[i].Val < c[j].Val
	})
	return c
}

// EqualMultiset compares two access lists as multisets.
func EqualMultiset(a, b []Access) bool {
	if len(a) != len(b) {
		return false
	}
	if len(a) <= 1 {
		return len(a) == 0 || a[0] == b[0]
	}
	// small lists: O(n^2) match without allocation
	if len(a) <= 8 {
		var used [8]bool
	outer:
		for _, x := range a {
			for j, y := range b {
				if !used[j] && x == y {
					used[j] = true
					continue outer
				}
			}
			return false
		}
		return true
	}
	sa, sb := SortedCopy(a), SortedCopy(b)
	for i := range sa {
		if sa[i] != sb[i] {
			return false
		}
	}
	return true
}

// EqualSeq compares two access lists as sequences.
func EqualSeq(a, b []Access) bool {
	if len(a) != len(b) {
		return false
	}
	for i := range a {
		if a[i] != b[i] {
			return false
		}
	}
	return true
}

// ---------------------------------------------------------------------------
// Handler monitor

type RetCounter struct {
	RETN, RETI int
}

type retnH struct{ c *RetCounter }
type retiH struct{ c *RetCounter }

func (h retnH) RETNHandle() { h.c.RETN++ }
func (h retiH) RETIHandle() { h.c.RETI++ }

// Handlers returns values usable as z80.RETNHandler / z80.RETIHandler.
func (c *RetCounter) Handlers() (retnH, retiH) { return retnH{c}, retiH{c} }

// ---------------------------------------------------------------------------
// Log monitor (process-global std logger)

type LogCapture struct {
	mu  sync.Mutex
	buf bytes.Buffer
	n   int
}

func (l *LogCapture) Write(p []byte) (int, error) {
	l.mu.Lock()
	l.n++
	if l.buf.Len() < 1<<16 {
		l.buf.Write(p)
	}
	l.mu.Unlock()
	return len(p), nil
}

// Lines returns the number of Write calls (log lines) so far.
func (l *LogCapture) Lines() int {
	l.mu.Lock()
	defer l.mu.Unlock()
	return l.n
}

func (l *LogCapture) Text() string {
	l.mu.Lock()
	defer l.mu.Unlock()
	return l.buf.String()
}

func (l *LogCapture) ResetText() {
	l.mu.Lock()
	l.buf.Reset()
	l.mu.Unlock()
}

// CaptureStdLog redirects the std logger to a capture and returns it.
func CaptureStdLog() *LogCapture {
	c := &LogCapture{}
	log.SetFlags(0)
	log.SetOutput(c)
	return c
}

type discard struct{}

func (discard) Write(p []byte) (int, error) { return len(p), nil }

// DiscardStdLog silences the std logger (bulk sweeps).
func DiscardStdLog() { log.SetOutput(discard{}) }
