package props

import (
	"context"
	"fmt"
	"runtime"
	"strings"
	"sync/atomic"
	"time"

	"github.com/koron-go/z80"
	"github.com/koron-go/z80/verif/mon"
)

func init() {
	register("C13", "exploration", runC13)
}

type c13Prog struct {
	Name   string
	Code   []uint8
	Setup  func(s *z80.States)
	Halts  bool
	ZeroIO bool
	Storm  bool    // the memory-write callback raises an NMI on every write (each acceptance's push raises the next)
	Fill   []uint8 // the whole memory holds this byte pattern (no instruction ever ends the prefix run / the program never leaves)
}

var c13Progs = []c13Prog{
	{Name: "JR -2", Code: []uint8{0x18, 0xfe}},
	{Name: "JP self", Code: []uint8{0xc3, 0x00, 0x01}},
	{Name: "JP (IX) [prefixed only]", Code: []uint8{0xdd, 0xe9}, Setup: func(s *z80.States) { s.IX = 0x0100 }},
	{Name: "LDIR BC=0 onto itself ; JP (IX) [prefixed only]", Code: []uint8{0xed, 0xb0, 0xdd, 0xe9}, Setup: func(s *z80.States) {
		s.IX = 0x0100
		s.HL.SetU16(0x4000)
		s.DE.SetU16(0x4000)
		s.BC.SetU16(0)
	}},
	{Name: "OTIR B=0 ; JP (IY) [prefixed only]", Code: []uint8{0xed, 0xb3, 0xfd, 0xe9}, Setup: func(s *z80.States) {
		s.IY = 0x0100
		s.HL.SetU16(0x4000)
		s.BC.SetU16(0x0017)
	}},
	{Name: "LD HL ; INIR ; JR", Code: []uint8{0x21, 0x00, 0x40, 0xed, 0xb2, 0x18, 0xf9}, Setup: func(s *z80.States) { s.BC.SetU16(0x0523) }},
	{Name: "LD HL,DE,BC ; LDIR ; JR", Code: []uint8{0x21, 0x00, 0x40, 0x11, 0x00, 0x50, 0x01, 0x00, 0x01, 0xed, 0xb0, 0x18, 0xf3}},
	{Name: "port poll: IN A,(C) ; OR A ; JR Z", Code: []uint8{0xed, 0x78, 0xb7, 0x28, 0xfb}, ZeroIO: true},
	{Name: "CPIR ; JP (IX) [prefixed only]", Code: []uint8{0xed, 0xb1, 0xdd, 0xe9}, Setup: func(s *z80.States) {
		s.IX = 0x0100
		s.HL.SetU16(0x4000)
		s.BC.SetU16(0)
	}},
	{Name: "memory filled with DD", Fill: []uint8{0xdd}},
	{Name: "memory filled with FD", Fill: []uint8{0xfd}},
	{Name: "memory filled with DD FD", Fill: []uint8{0xdd, 0xfd}},
	{Name: "memory filled with ED", Fill: []uint8{0xed}},
	{Name: "memory filled with CB", Fill: []uint8{0xcb}},
	{Name: "memory filled with NOP", Fill: []uint8{0x00}},
	{Name: "memory filled with RST 38", Fill: []uint8{0xff}},
	{Name: "memory filled with DD CB", Fill: []uint8{0xdd, 0xcb}},
	{Name: "NMI storm: every stack write raises the next NMI ; JR -2", Code: []uint8{0x18, 0xfe}, Storm: true},
	{Name: "generated terminating program", Halts: true},
}

type zeroIO struct{ n uint64 }

func (z *zeroIO) In(uint8) uint8   { z.n++; return 0 }
func (z *zeroIO) Out(uint8, uint8) { z.n++ }

type c13NotPrompt struct{ After uint64 }

// z80Goroutines returns the stacks of goroutines that are inside the code
// under test (not merely the harness).
func z80Goroutines() []string {
	buf := make([]byte, 1<<20)
	n := runtime.Stack(buf, true)
	var out []string
	for _, blk := range strings.Split(string(buf[:n]), "\n\n") {
		in := false
		for _, l := range strings.Split(blk, "\n") {
			if (strings.HasPrefix(l, "github.com/koron-go/z80.") || strings.HasPrefix(l, "github.com/koron-go/z80/internal") ||
				strings.Contains(l, "created by github.com/koron-go/z80.")) && !strings.Contains(l, "/verif/") {
				in = true
			}
		}
		if in {
			out = append(out, blk)
		}
	}
	return out
}

// waitNoZ80Goroutines polls (bounded) until no goroutine of the code under
// test remains; returns the survivors.
func waitNoZ80Goroutines() []string {
	var g []string
	for i := 0; i < 400; i++ {
		g = z80Goroutines()
		if len(g) == 0 {
			return nil
		}
		runtime.Gosched()
		time.Sleep(5 * time.Millisecond)
	}
	return g
}

const c13Bound = 3000 // bus accesses tolerated after the context is done (a correct loop needs 1..6)

// C13 — cancellation of Run; whole binary under -race.
var errC13Cause = fmt.Errorf("the operator pulled the plug")

type c13DeviceFault struct{}

func runC13(c *Ctx) {
	mon.DiscardStdLog()
	ncalls := c.Pick(2400, 40000)
	r := mon.NewRng(uint64(c.Seed) ^ 0xC13)
	var evals, leaks, promptTrips, unwound, reusedCalls int64
	var sharedCPU *z80.CPU
	distinct := mon.NewDistinct(1_000_000)
	afterHist := map[string]int64{}
	errKinds := map[string]int64{}
	modes := map[string]int64{}
	procs := map[int]int64{}
	oldProcs := runtime.GOMAXPROCS(0)
	defer runtime.GOMAXPROCS(oldProcs)

	if g := waitNoZ80Goroutines(); g != nil {
		c.R.Inconclusive("goroutines of the code under test exist before the workload starts")
		return
	}
	var live []context.CancelFunc // contexts kept alive during a batch (leak accounting happens before they are cancelled)
	flushBatch := func(tag string) {
		if g := waitNoZ80Goroutines(); g != nil {
			leaks += int64(len(g))
			st := g[0]
			if len(st) > 1500 {
				st = st[:1500]
			}
			c.R.Violation("C13/goroutine-left-behind", map[string]interface{}{
				"what":  fmt.Sprintf("%d goroutine(s) of the code under test survive after Run returned (contexts of the batch still alive)", len(g)),
				"batch": tag, "stack": st})
		}
		for _, f := range live {
			f()
		}
		live = live[:0]
		// after cancelling the parents nothing may remain either
		if g := waitNoZ80Goroutines(); g != nil {
			leaks += int64(len(g))
			c.R.Violation("C13/goroutine-left-behind-after-cancel", map[string]interface{}{"count": len(g), "stack": g[0]})
		}
	}

	mem0, tm0 := &mon.Mem{}, &mon.Mem{}
	fillMems := map[string][2]*mon.Mem{}
	var fill uint64
	for call := 0; call < ncalls; call++ {
		mem, tm := mem0, tm0
		if promptTrips >= 3 || c.R.Violations() >= 20 {
			break // each further trip costs seconds of 1 ms sleeps; the verdict is already clear
		}
		if call%50 == 0 {
			flushBatch(fmt.Sprintf("calls %d..%d", call-50, call))
			np := []int{1, 2, 16}[(call/50)%3]
			runtime.GOMAXPROCS(np)
		}
		np := runtime.GOMAXPROCS(0)
		procs[np]++
		pi := call % len(c13Progs)
		pg := c13Progs[pi]
		if call%100 == 0 {
			fill = r.U64()
			mem0.Fill(fill)
			tm0.Fill(fill)
		}
		mem.Reset()
		tm.Reset()
		var st z80.States
		var halt uint16
		var genP *Prog
		if pg.Halts {
			genP = GenProgram(r, GenOpts{Base: 0x0100, MinBlocks: 2, MaxBlocks: 15, IM: 1})
			genP.Install(mem)
			st = genP.Init
			halt = genP.HaltAddr
		} else {
			st = RandStates(r)
			st.PC = 0x0100
			st.SP = 0xf000
			st.IFF1, st.IFF2 = false, false
			if pg.Setup != nil {
				pg.Setup(&st)
			}
			mem.Place(0x0100, pg.Code...)
			if pg.Fill != nil {
				// pre-filled memories, one pair per pattern (Reset undoes the program's writes)
				pair, ok := fillMems[pg.Name]
				if !ok {
					pair = [2]*mon.Mem{{}, {}}
					for _, m := range pair {
						for a := 0; a < 65536; a++ {
							m.Data[a] = pg.Fill[a%len(pg.Fill)]
						}
					}
					fillMems[pg.Name] = pair
				}
				mem, tm = pair[0], pair[1]
				mem.Reset()
				tm.Reset()
			}
		}
		// starting R: the refresh counter must not influence promptness
		switch r.Intn(6) {
		case 0:
			st.IR.Lo = 0
		case 1:
			st.IR.Lo = 1
		case 2:
			st.IR.Lo = 3
		case 3:
			st.IR.Lo = 0x7f
		}
		pre := st
		var io z80.IO = &mon.IO{Seed: fill}
		if pg.ZeroIO {
			io = &zeroIO{}
		}
		cpu := &z80.CPU{States: st, Memory: mem, IO: io}
		if call%2 == 0 {
			// every other call re-uses ONE CPU object for the whole workload (a host keeps its
			// CPU; whatever a Run that ended by cancellation, deadline, HALT, panic or Goexit
			// left on the object meets the next Run and the next context)
			if sharedCPU == nil {
				sharedCPU = &z80.CPU{}
			}
			cpu = sharedCPU
			cpu.States, cpu.Memory, cpu.IO = st, mem, io
			cpu.Interrupt, cpu.HALT, cpu.BreakPoints = nil, false, nil
			reusedCalls++
		}
		// a maskable request that stays refused (these loops never enable interrupts): it
		// belongs to the state Run leaves behind, like everything else
		var pendingReq *z80.Interrupt
		if !pg.Halts && !pg.Storm && pg.Fill == nil && call%3 == 1 {
			pendingReq = z80.IM1Interrupt()
			cpu.Interrupt = pendingReq
		}

		// every 8th terminating program is entered the way a host re-enters after a HALT: the
		// halted indication still set and an NMI pending.  Nothing but whole Steps may
		// happen to the state, whatever the context does.
		staleNMI := pg.Halts && call%8 == 3
		if staleNMI {
			cpu.HALT = true
			cpu.Interrupt = z80.NMIInterrupt()
		}

		// context and cancellation mode
		mode := []string{"cancel-in-callback", "cancel-in-callback", "cancel-from-goroutine", "cancelled-before-call", "deadline-expired", "deadline-1ms", "child-of-cancelled-parent", "never",
			"cancel-with-cause", "timeout-with-cause", "child-of-parent-cancelled-with-cause", "device-panics", "device-goexit"}[r.Intn(13)]
		if pg.Halts && r.Bool() {
			mode = "never"
		}
		if !pg.Halts && mode == "never" {
			mode = "cancel-in-callback"
		}
		base := context.Background()
		var ctx context.Context
		var cancel context.CancelFunc
		var parentCancel context.CancelFunc
		cancelAt := uint64(0)
		switch mode {
		case "cancel-in-callback":
			ctx, cancel = context.WithCancel(base)
			cancelAt = []uint64{1, 2, 10, 1000, 100000}[r.Intn(5)]
			if r.Intn(3) == 0 {
				cancelAt = uint64(1 + r.Intn(5000))
			}
		case "cancel-from-goroutine":
			ctx, cancel = context.WithCancel(base)
		case "cancelled-before-call":
			ctx, cancel = context.WithCancel(base)
			cancel()
		case "deadline-expired":
			ctx, cancel = context.WithDeadline(base, time.Now().Add(-time.Second))
		case "deadline-1ms":
			ctx, cancel = context.WithTimeout(base, time.Millisecond)
		case "child-of-cancelled-parent":
			var p context.Context
			p, parentCancel = context.WithCancel(base)
			ctx, cancel = context.WithTimeout(p, time.Hour)
			cancelAt = uint64(1 + r.Intn(3000)) // the parent is cancelled from the callback
		case "cancel-with-cause":
			// the context's error stays context.Canceled; the cause is somebody else's business
			cc, cf := context.WithCancelCause(base)
			ctx, cancel = cc, func() { cf(errC13Cause) }
			cancelAt = uint64(1 + r.Intn(5000))
		case "timeout-with-cause":
			ctx, cancel = context.WithTimeoutCause(base, time.Millisecond, errC13Cause)
		case "child-of-parent-cancelled-with-cause":
			pc, pf := context.WithCancelCause(base)
			parentCancel = func() { pf(errC13Cause) }
			ctx, cancel = context.WithCancel(pc)
			cancelAt = uint64(1 + r.Intn(3000))
		case "device-panics", "device-goexit":
			// Run is left by unwinding: the user's device panics (recovered by the caller) or
			// ends its goroutine.  The context stays alive: nothing may stay behind.
			if r.Bool() {
				ctx, cancel = context.WithCancel(base)
			} else {
				ctx, cancel = context.WithTimeout(base, time.Hour)
			}
			cancelAt = uint64(1 + r.Intn(3000))
		case "never":
			// cancellable but never cancelled during the call; kept alive until the batch is accounted
			if r.Bool() {
				ctx, cancel = context.WithCancel(base)
			} else {
				ctx, cancel = context.WithTimeout(base, time.Hour)
			}
		}
		modes[mode]++
		var after uint64 // accesses seen after the context was done
		var doneAtCount uint64
		if pg.Storm {
			cpu.Interrupt = z80.NMIInterrupt()
		}
		mem.Hook = func(m *mon.Mem, a mon.Access) {
			if pg.Storm && a.Kind == 'W' {
				cpu.Interrupt = z80.NMIInterrupt()
			}
			if cancelAt != 0 && m.Count == cancelAt && mode == "device-panics" {
				panic(c13DeviceFault{})
			}
			if cancelAt != 0 && m.Count == cancelAt && mode == "device-goexit" {
				runtime.Goexit()
			}
			if cancelAt != 0 && m.Count == cancelAt {
				if parentCancel != nil {
					parentCancel()
				} else {
					cancel()
				}
			}
			if ctx.Err() != nil {
				if after == 0 {
					doneAtCount = m.Count
				}
				after++
				if after > c13Bound {
					panic(c13NotPrompt{after})
				}
				// hand the processor to whoever publishes the cancellation
				if after > 2 {
					time.Sleep(time.Millisecond)
				} else {
					runtime.Gosched()
				}
			} else if !pg.Halts && m.Count > 30_000_000 && mode != "deadline-1ms" {
				// safety net for non-terminating programs whose cancellation never comes (harness bug)
				panic(fmt.Sprintf("harness: context never done after %d accesses (mode %s)", m.Count, mode))
			}
		}
		var cancelledFlag atomic.Bool
		if mode == "cancel-from-goroutine" {
			spin := r.Intn(200000)
			go func() {
				x := 0
				for i := 0; i < spin; i++ {
					x += i
				}
				_ = x
				cancelledFlag.Store(true)
				cancel()
			}()
		}
		var err error
		var pan interface{}
		if mode == "device-goexit" {
			done := make(chan struct{})
			go func() {
				defer close(done)
				err = cpu.Run(ctx)
			}()
			<-done
		} else {
			func() {
				defer func() { pan = recover() }()
				err = cpu.Run(ctx)
			}()
		}
		mem.Hook = nil
		evals++
		if _, ok := pan.(c13DeviceFault); ok || mode == "device-goexit" {
			// no verdict on state or error: only that nothing stays behind (accounted per batch,
			// with this context still alive)
			if pg.Halts && mem.Count < cancelAt {
				errKinds["nil(halted before the device failed)"]++
			} else {
				unwound++
			}
			live = append(live, cancel)
			continue
		}
		ctxErr := ctx.Err()
		w := func(what string) map[string]interface{} {
			return map[string]interface{}{"what": what, "program": pg.Name, "mode": mode, "GOMAXPROCS": np, "R_start": h8(pre.IR.Lo),
				"cancel_at_access": cancelAt, "accesses_total": mem.Count, "accesses_after_done": after, "returned": fmt.Sprint(err), "ctx_err": fmt.Sprint(ctxErr),
				"pre": DumpState(&pre, false), "post": DumpState(&cpu.States, cpu.HALT), "call": call}
		}
		halted := pg.Halts && cpu.HALT && cpu.PC == halt
		switch {
		case pan != nil:
			if np, ok := pan.(c13NotPrompt); ok {
				promptTrips++
				c.R.Violation("C13/not-prompt/"+pg.Name, w(fmt.Sprintf("Run still executing %d bus accesses after its context was done (each followed by a 1 ms sleep)", np.After)))
			} else if s, ok := pan.(string); ok && strings.HasPrefix(s, "harness:") {
				c.R.Inconclusive(s)
			} else {
				c.R.Violation("C13/panic", w(fmt.Sprintf("panic: %v", pan)))
			}
		case err == nil && halted:
			errKinds["nil(halted)"]++
		case err == nil:
			c.R.Violation("C13/nil-without-halt/"+mode, w("Run returned nil although the program did not halt"))
		case ctxErr == nil:
			c.R.Violation("C13/error-without-done-context/"+mode, w("Run returned an error although its context is not done"))
		case err != ctxErr:
			c.R.Violation("C13/wrong-error/"+mode, w("Run did not return the context's error"))
		default:
			errKinds[err.Error()]++
		}
		if pendingReq != nil && pan == nil && cpu.Interrupt != pendingReq {
			c.R.Violation("C13/pending-request-removed/"+mode, w("a refused request that was pending when Run was called is gone after Run returned: no whole number of Steps does that"))
		}
		bucket := "0"
		switch {
		case after == 0:
		case after <= 6:
			bucket = "1-6"
		case after <= 60:
			bucket = "7-60"
		default:
			bucket = ">60"
		}
		afterHist[bucket]++
		// (3) whole number of Steps: a Step-driven twin reaches exactly this state
		if pan == nil && !pg.ZeroIO && !pg.Storm {
			if pg.Halts {
				genP.Install(tm)
			} else {
				if pg.Fill == nil {
					tm.Place(0x0100, pg.Code...)
				}
			}
			twin := &z80.CPU{States: pre, Memory: tm, IO: &mon.IO{Seed: fill}}
			if staleNMI {
				twin.Interrupt = z80.NMIInterrupt()
			}
			for tm.Count < mem.Count {
				twin.Step()
			}
			bad := ""
			if tm.Count != mem.Count {
				bad = "Run stopped in the middle of an instruction (bus access count is not at a Step boundary)"
			} else if twin.States != cpu.States {
				bad = "state after Run is not reachable by a whole number of Steps"
			} else {
				for _, a := range tm.Dirty(0) {
					if tm.Data[a] != mem.Data[a] {
						bad = "memory after Run is not reachable by a whole number of Steps"
					}
				}
			}
			if bad != "" {
				c.R.Violation("C13/not-at-step-boundary", w(bad))
			}
		}
		_ = doneAtCount
		if mode == "never" {
			live = append(live, cancel) // stays alive until the batch has been accounted
		} else {
			cancel()
			if parentCancel != nil {
				parentCancel()
			}
		}
		distinct.Add(mon.Hash(uint64(pi), uint64(np), uint64(cancelAt), uint64(pre.IR.Lo), uint64(len(mode))<<8|uint64(mode[0])))
		if call < 6 {
			c.R.Sample(map[string]interface{}{"program": pg.Name, "mode": mode, "GOMAXPROCS": np, "cancel_at_access": cancelAt,
				"accesses_total": mem.Count, "accesses_after_done": after, "returned": fmt.Sprint(err), "R_start": h8(pre.IR.Lo)})
		}
	}
	flushBatch("final")

	// hook-free phase: short terminating programs whose context is done at about
	// the moment they halt, with NO yields or sleeps in the callbacks, so that the
	// HALT exit and the publication of the cancellation really overlap (a race on
	// the hand-off variables only shows then)
	nfree := c.Pick(1500, 20000)
	var freeNil, freeErr int64
	for i := 0; i < nfree && c.R.Violations() < 20; i++ {
		if i%200 == 0 {
			runtime.GOMAXPROCS([]int{2, 16, 1}[(i/200)%3])
		}
		gp := GenProgram(r, GenOpts{Base: 0x0100, MinBlocks: 1, MaxBlocks: 1 + r.Intn(6), IM: 1, NoIO: true})
		mem0.Reset()
		gp.Install(mem0)
		cpu := &z80.CPU{States: gp.Init, Memory: mem0}
		var ctx context.Context
		var cancel context.CancelFunc
		kind := i % 4
		switch kind {
		case 0:
			ctx, cancel = context.WithCancel(context.Background())
			cancel()
		case 1:
			ctx, cancel = context.WithDeadline(context.Background(), time.Now().Add(-time.Second))
		case 2:
			ctx, cancel = context.WithCancel(context.Background())
			go cancel()
		case 3:
			ctx, cancel = context.WithCancel(context.Background())
			spin := r.Intn(3000)
			go func() {
				x := 0
				for k := 0; k < spin; k++ {
					x += k
				}
				_ = x
				cancel()
			}()
		}
		var err error
		var pan interface{}
		func() {
			defer func() { pan = recover() }()
			err = cpu.Run(ctx)
		}()
		evals++
		switch {
		case pan != nil:
			c.R.Violation("C13/hook-free/panic", map[string]interface{}{"panic": fmt.Sprint(pan)})
		case err == nil:
			freeNil++
			if !(cpu.HALT && cpu.PC == gp.HaltAddr) {
				c.R.Violation("C13/hook-free/nil-without-halt", map[string]interface{}{"state": DumpState(&cpu.States, cpu.HALT), "halt_addr": h16(gp.HaltAddr)})
			}
		default:
			freeErr++
			if err != ctx.Err() {
				c.R.Violation("C13/hook-free/wrong-error", map[string]interface{}{"returned": fmt.Sprint(err), "ctx_err": fmt.Sprint(ctx.Err()), "kind": kind})
			}
		}
		cancel()
		distinct.Add(mon.Hash(0xf4ee, uint64(i)))
	}
	flushBatch("hook-free")
	c.R.Set("hook_free_run_calls", int64(nfree))
	c.R.Set("hook_free_returned_nil_halted", freeNil)
	c.R.Set("hook_free_returned_ctx_error", freeErr)

	// race detector reports
	prefix := mon.RaceLogPrefix()
	reports := mon.RaceReports(prefix, "github.com/koron-go/z80", "github.com/koron-go/z80/verif")
	nTarget, nHarness := 0, 0
	seen := map[string]bool{}
	for _, rr := range reports {
		if rr.InTarget {
			nTarget++
			if !seen[rr.Signature] {
				seen[rr.Signature] = true
				txt := rr.Text
				if len(txt) > 2500 {
					txt = txt[:2500]
				}
				c.R.Violation("C13/data-race/"+rr.Signature, map[string]interface{}{"race_report": txt})
			}
		} else {
			nHarness++
		}
	}
	if nHarness > 0 {
		c.R.Inconclusive(fmt.Sprintf("%d race reports involve only harness frames (monitor bug)", nHarness))
	}
	if prefix == "" {
		c.R.Inconclusive("GORACE log_path not set: race reports cannot be collected (run through ./check)")
	}
	if !raceEnabled {
		c.R.Inconclusive("binary not built with -race")
	}
	c.R.Set("race_detector", raceEnabled)
	c.R.Set("race_reports_in_z80", int64(nTarget))
	c.R.Set("race_reports_total", int64(len(reports)))
	c.R.Set("evaluations", evals)
	c.R.Set("run_calls", evals)
	c.R.Set("distinct_nontrivial", distinct.N())
	c.R.Set("goroutines_left_behind", leaks)
	c.R.Set("calls_on_one_reused_cpu_object", reusedCalls)
	c.R.Set("runs_left_by_unwinding_device_panic_or_goexit", unwound)
	c.R.Set("not_prompt_trips", promptTrips)
	c.R.Set("accesses_after_context_done_histogram", afterHist)
	c.R.Set("returned", errKinds)
	c.R.Set("cancellation_modes", modes)
	pm := map[string]int64{}
	for k, v := range procs {
		pm[fmt.Sprint(k)] = v
	}
	c.R.Set("gomaxprocs", pm)
	c.R.Set("programs", int64(len(c13Progs)))
	c.R.Set("exhaustive", false)
	c.R.Set("rule", "Run calls on {JR loop, JP loop, JP (IX) loop and LDIR/OTIR/CPIR loops made of prefixed instructions only, INIR and LDIR loops, a port-polling loop, an NMI storm in which every acceptance's own stack write raises the next NMI, memories filled with one prefix/opcode pattern (DD, FD, DD FD, ED, CB, DD CB, NOP, RST 38), generated terminating programs} with starting R in {0,1,3,7F,random} x cancellation {from inside the program's own bus callback at access 1,2,10,1000,100000 or random, from a second goroutine after a random spin, cancelled before the call, deadline already expired, deadline in 1 ms, a child of a parent cancelled from the callback, cancelled with a cause / timed out with a cause / child of a parent cancelled with a cause (Run must return ctx.Err(), not the cause), never (program halts; context kept alive), the user's device panicking (recovered by the caller) or ending the goroutine (runtime.Goexit) in the middle of Run with the context staying alive (only the nothing-left-behind rule is applied to these)} x GOMAXPROCS {1,2,16}; every other call runs on ONE CPU object re-used for the whole workload. Oracle: returned error == ctx.Err() (nil with the halted state also legal for terminating programs); logical promptness: once the context is done every bus callback yields / sleeps 1 ms and Run may make at most 3000 further accesses (a correct loop needs 1..6) - a count, not a stopwatch; a refused maskable request pending at the call (1/3 of the loop programs) must still be pending afterwards; the final States and memory must equal a Step-driven twin advanced to the same access count (whole number of Steps); after every batch of 50 calls no goroutine with a z80 frame may remain, first while the batch's never-cancelled contexts are still alive, then after cancelling them; a hook-free phase runs short terminating programs with contexts that are done at about the moment of the HALT (no yields/sleeps anywhere) so that the race detector sees the HALT exit overlap the publication of the cancellation; zero race reports (binary built with -race). Distinct = distinct (program, GOMAXPROCS, cancellation instant, starting R, mode)")
	c.R.Assume("nothing assumes that a watcher goroutine exists; leak accounting looks only at goroutines with frames of the code under test")
}
