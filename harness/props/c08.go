package props

import (
	"context"
	"fmt"
	"sync"
	"time"

	"github.com/koron-go/z80"
	"github.com/koron-go/z80/verif/mon"
)

func init() {
	register("C08", "exploration", runC08)
}

// irqPlan raises requests from inside bus callbacks at chosen access counts.
type irqPlan struct {
	At    []uint64 // access counts (memory accesses) at which a request is raised
	Kind  []int    // 0 NMI, 1 INT
	Data  [][]uint8
	IOAt  []uint64 // port access counts at which an NMI is raised
	fired map[*z80.CPU]int

	// Reuse: the device owns ONE request object per kind, built once through the public
	// constructors, and assigns that same object at every firing (a vblank source does
	// exactly that).  Between firings another device builds and drops a request.  The
	// library never owns these objects: they must keep their Type and Data.
	Reuse    bool
	reqNMI   *z80.Interrupt
	reqINT   *z80.Interrupt
	origData []uint8
	Corrupt  string // set when a host-owned request object was found modified

	OnHaltFetch bool // raise a request from the read callback that delivers the final HALT opcode
	HaltAddr    uint16
	HaltKind    int // 0 NMI, 1 maskable (data per mode in HaltData)
	HaltData    []uint8
	haltDone    map[*z80.CPU]bool
}

// Fired returns how many requests the callbacks have raised on cpu so far.
func (pl *irqPlan) Fired(cpu *z80.CPU) int {
	if pl == nil || pl.fired == nil {
		return 0
	}
	return pl.fired[cpu]
}

func (pl *irqPlan) install(cpu *z80.CPU, mem *mon.Mem, io *mon.IO) {
	if pl == nil {
		return
	}
	if pl.fired == nil {
		pl.fired = map[*z80.CPU]int{}
	}
	if pl.haltDone == nil {
		pl.haltDone = map[*z80.CPU]bool{}
	}
	mem.Hook = func(m *mon.Mem, a mon.Access) {
		if pl.OnHaltFetch && !pl.haltDone[cpu] && a.Kind == 'R' && a.Addr == pl.HaltAddr && a.Val == 0x76 && cpu.PC == pl.HaltAddr {
			pl.haltDone[cpu] = true
			pl.fired[cpu]++
			if pl.HaltKind == 0 {
				cpu.Interrupt = z80.NMIInterrupt()
			} else {
				cpu.Interrupt = &z80.Interrupt{Type: z80.IMType, Data: append([]uint8(nil), pl.HaltData...)}
			}
		}
		for i, at := range pl.At {
			if m.Count == at {
				pl.fired[cpu]++
				if pl.Reuse {
					pl.fireReused(cpu, i)
					continue
				}
				if pl.Kind[i] == 0 {
					cpu.Interrupt = z80.NMIInterrupt()
				} else {
					cpu.Interrupt = &z80.Interrupt{Type: z80.IMType, Data: append([]uint8(nil), pl.Data[i]...)}
				}
			}
		}
	}
	io.Hook = func(o *mon.IO, a mon.Access) {
		for _, at := range pl.IOAt {
			if o.N == at {
				pl.fired[cpu]++
				cpu.Interrupt = z80.NMIInterrupt()
			}
		}
	}
}

// makeReq builds a request through the public constructors.
func makeReq(kind int, data []uint8) *z80.Interrupt {
	switch {
	case kind == 0:
		return z80.NMIInterrupt()
	case len(data) == 0:
		return z80.IM1Interrupt()
	case len(data) == 1 && data[0]&1 == 0:
		return z80.IM2Interrupt(data[0])
	default:
		return z80.IM0Interrupt(data[0], data[1:]...)
	}
}

func (pl *irqPlan) checkOwned() {
	if pl.reqNMI != nil && (pl.reqNMI.Type != z80.NMIType) {
		pl.Corrupt = fmt.Sprintf("the host's NMI request object now has Type=%d Data=% X", pl.reqNMI.Type, pl.reqNMI.Data)
	}
	if pl.reqINT != nil && (pl.reqINT.Type != z80.IMType || !bytesEq(pl.reqINT.Data, pl.origData)) {
		pl.Corrupt = fmt.Sprintf("the host's maskable request object (built with data % X) now has Type=%d Data=% X", pl.origData, pl.reqINT.Type, pl.reqINT.Data)
	}
}

// fireReused assigns the device's one request object of the wanted kind (all
// maskable firings of a plan use the data of the first maskable entry).
func (pl *irqPlan) fireReused(cpu *z80.CPU, i int) {
	pl.checkOwned()
	if pl.Kind[i] == 0 {
		if pl.reqNMI == nil {
			pl.reqNMI = z80.NMIInterrupt()
		}
		cpu.Interrupt = pl.reqNMI
	} else {
		if pl.reqINT == nil {
			for j := range pl.Kind {
				if pl.Kind[j] == 1 {
					pl.origData = append([]uint8(nil), pl.Data[j]...)
					break
				}
			}
			pl.reqINT = makeReq(1, pl.origData)
		}
		cpu.Interrupt = pl.reqINT
	}
	// another device builds a request of another shape and drops it
	if pl.Kind[i] == 0 {
		_ = z80.IM0Interrupt(0xcd, 0x34, 0x12)
	} else {
		_ = z80.NMIInterrupt()
	}
}

type c08Fault struct{}

// twinRun applies the stop rule of the property on a Step-driven CPU.
func twinRun(cpu *z80.CPU, maxSteps int, pl *irqPlan, lost *int, mem *mon.Mem, flagDisagrees *bool, devHALT *bool) (err error, steps int, ok bool) {
	cpu.HALT = false
	for steps < maxSteps {
		f0 := pl.Fired(cpu)
		pc := cpu.PC
		n0 := len(mem.Log)
		reqBefore := cpu.Interrupt
		cpu.Step()
		steps++
		// independent of the flag: did this Step execute a HALT opcode? (fetched 76 at PC,
		// no request accepted, PC still on it)
		// (an accepting Step never starts with a read of the byte at PC: its first
		// bus access is the push, and mode-0 instruction bytes come from the device)
		// (an implementation that gives ignored DD/FD prefixes their silicon meaning executes
		// DD 76 as a HALT too: the fetched bytes are then prefixes followed by 76 and PC stays
		// on one of them; on this tree DD 76 is swallowed and PC moves behind it)
		executedHALT := false
		for k := n0; k < len(mem.Log) && k < n0+4; k++ {
			a := mem.Log[k]
			if a.Kind != 'R' || a.Addr != pc+uint16(k-n0) {
				break
			}
			if a.Val == 0x76 {
				executedHALT = cpu.PC-pc <= uint16(k-n0)
				break
			}
			if a.Val != 0xdd && a.Val != 0xfd {
				break
			}
		}
		// A mode-0 device may itself supply a HALT (or anything else): that instruction never
		// appears on the memory bus, so the recogniser above cannot see it.  No verdict on the
		// flag for a Step that accepted a mode-0 request; if that Step halted, remember it:
		// PC then addresses the interrupted instruction, not a HALT opcode in memory.
		acceptedIM0 := reqBefore != nil && cpu.Interrupt != reqBefore && reqBefore.Type != z80.NMIType && cpu.IM == 0
		if acceptedIM0 {
			executedHALT = cpu.HALT
		}
		*devHALT = acceptedIM0 && cpu.HALT
		if executedHALT != cpu.HALT {
			*flagDisagrees = true
		}
		if pl.Fired(cpu) != f0 && cpu.Interrupt == nil {
			// a callback raised a request during this Step: it must be
			// pending at the next instruction boundary
			*lost++
		}
		if cpu.BreakPoints != nil {
			if _, hit := cpu.BreakPoints[cpu.PC]; hit {
				return z80.ErrBreakPoint, steps, true
			}
		}
		if cpu.HALT {
			return nil, steps, true
		}
	}
	return nil, steps, false
}

// C08 — Run is exactly repeated Step; stop rule.
func runC08(c *Ctx) {
	mon.DiscardStdLog()
	ncfg := c.Pick(10000, 300000)
	var mu sync.Mutex
	var evals, runCalls, bpStops, haltStops, staleHalt, withIRQ, irqAccepted, wrapProgs, haltTop, rerunHalted, totalSteps, bpEditsTotal, faultCfgs int64
	distinct := mon.NewDistinct(4_000_000)
	bpClassCount := map[string]int64{}

	Parallel(ncfg, func(ci int) {
		defer func() {
			if pn := recover(); pn != nil {
				c.R.Violation("C08/panic", map[string]interface{}{"config": ci, "panic": fmt.Sprint(pn),
					"what": "Step/Run panicked on a generated terminating program with callback-raised interrupts"})
			}
		}()
		r := mon.NewRng(mon.Hash(uint64(c.Seed), uint64(ci), 0xC08))
		fill := r.U64()
		memR, memT := &mon.Mem{}, &mon.Mem{}
		memR.Fill(fill)
		memT.Fill(fill)
		o := GenOpts{Base: 0x0100, MinBlocks: 1, MaxBlocks: 20, IM: r.Intn(3)}
		switch ci % 5 {
		case 1:
			o.Wrap = true
			o.MaxBlocks = 6
		case 2:
			o.HaltAtTop = true
			o.MaxBlocks = 8
		}
		if o.Wrap || o.HaltAtTop {
			if o.IM == 0 {
				o.IM = 2 // RST vectors are covered by code
			}
			if o.IM == 1 {
				o.IM = 2
			}
		}
		p := GenProgram(r, o)
		ioSeed := r.U64()
		// interrupt plan
		var plan *irqPlan
		if ci%3 != 0 {
			plan = &irqPlan{}
			ni := 1 + r.Intn(3)
			for i := 0; i < ni; i++ {
				plan.At = append(plan.At, uint64(20+r.Intn(400)))
				if r.Bool() {
					plan.Kind = append(plan.Kind, 0)
					plan.Data = append(plan.Data, nil)
				} else {
					plan.Kind = append(plan.Kind, 1)
					switch o.IM {
					case 0:
						if r.Bool() {
							plan.Data = append(plan.Data, []uint8{uint8(0xcf | r.Intn(7)<<3)})
						} else {
							h := p.HandlerAddr()
							plan.Data = append(plan.Data, []uint8{0xcd, uint8(h), uint8(h >> 8)})
						}
					case 1:
						plan.Data = append(plan.Data, nil)
					default:
						plan.Data = append(plan.Data, []uint8{uint8(r.Intn(128) * 2)})
					}
				}
			}
			if p.HasIO && r.Bool() {
				plan.IOAt = append(plan.IOAt, uint64(1+r.Intn(6)))
			}
			if r.Intn(4) == 0 {
				// the request arrives with the very read that delivers the final HALT opcode
				plan.OnHaltFetch = true
				plan.HaltAddr = p.HaltAddr
				plan.HaltKind = r.Intn(2)
				switch o.IM {
				case 0:
					plan.HaltData = []uint8{0xff}
				case 2:
					plan.HaltData = []uint8{uint8(r.Intn(128) * 2)}
				}
			}
		}
		// pilot: Step-driven, no breakpoints: PC trace and instruction boundaries
		memT.Reset()
		p.Install(memT)
		pio := &mon.IO{Seed: ioSeed}
		pilot := z80.CPU{States: p.Init, Memory: memT, IO: pio}
		plan.install(&pilot, memT, pio)
		var trace []uint16
		halted := false
		for i := 0; i < 300000; i++ {
			pilot.Step()
			trace = append(trace, pilot.PC)
			if pilot.HALT && pilot.Interrupt == nil {
				halted = true
				break
			}
		}
		memT.Hook = nil
		if !halted {
			// IM0 known resume defect may derail a program with mode-0 requests: skip
			return
		}
		// breakpoint set class
		bpClass := []string{"nil", "empty", "start-pc", "halt-addr", "inside-multibyte", "from-trace", "random", "handler-entry"}[r.Intn(8)]
		var bps map[uint16]struct{}
		switch bpClass {
		case "empty":
			bps = map[uint16]struct{}{}
		case "start-pc":
			bps = map[uint16]struct{}{p.Init.PC: {}}
		case "halt-addr":
			bps = map[uint16]struct{}{p.HaltAddr: {}}
		case "inside-multibyte":
			bps = map[uint16]struct{}{}
			seen := map[uint16]bool{}
			for _, a := range trace {
				seen[a] = true
			}
			for tries := 0; tries < 20 && len(bps) < 3; tries++ {
				a := trace[r.Intn(len(trace))] + 1
				if !seen[a] {
					bps[a] = struct{}{}
				}
			}
		case "from-trace":
			bps = map[uint16]struct{}{}
			for i := 0; i < 1+r.Intn(4); i++ {
				bps[trace[r.Intn(len(trace))]] = struct{}{}
			}
		case "random":
			bps = map[uint16]struct{}{}
			for i := 0; i < 1+r.Intn(6); i++ {
				bps[r.U16()] = struct{}{}
			}
		case "handler-entry":
			bps = map[uint16]struct{}{0x0038: {}, 0x0066: {}, p.HandlerAddr(): {}, p.HandlerAddr() + 0x40: {}}
		}
		stale := r.Bool()
		bpSize := len(bps)
		bpEdits := 0

		// --- the two twins
		memR.Reset()
		memT.Reset()
		p.Install(memR)
		p.Install(memT)
		memR.Logging, memT.Logging = true, true
		ioR, ioT := &mon.IO{Seed: ioSeed}, &mon.IO{Seed: ioSeed}
		run := &z80.CPU{States: p.Init, Memory: memR, IO: ioR, BreakPoints: bps, HALT: stale}
		twin := &z80.CPU{States: p.Init, Memory: memT, IO: ioT, BreakPoints: bps, HALT: stale}
		plan.install(run, memR, ioR)
		plan.install(twin, memT, ioT)
		bad := ""
		lost := 0
		flagDisagrees := false
		devHALT := false // the twin's last Step halted on a HALT supplied by a mode-0 device
		var lcalls, lbp, lhalt, lsteps int64
		var lrerun, lfaults int64
		accepted := false
		// every 6th configuration: the user's device panics once in the middle of the first
		// Run (and of the twin's Step at the same bus access); the host recovers and simply
		// calls Run again - which must carry on exactly as repeated Step does
		if ci%6 == 4 {
			at := uint64(3 + ci%97)
			inners := [2]func(*mon.Mem, mon.Access){memR.Hook, memT.Hook}
			for _, mm := range []*mon.Mem{memR, memT} {
				inner := mm.Hook
				mm.Hook = func(m *mon.Mem, a mon.Access) {
					if m.Count == at {
						panic(c08Fault{})
					}
					if inner != nil {
						inner(m, a)
					}
				}
			}
			caught := func(f func()) (ok bool) {
				defer func() {
					if p := recover(); p != nil {
						if _, is := p.(c08Fault); !is {
							panic(p)
						}
						ok = true
					}
				}()
				f()
				return false
			}
			ft := caught(func() { twinRun(twin, 400000, plan, &lost, memT, &flagDisagrees, &devHALT) })
			fr := caught(func() { run.Run(context.Background()) })
			// CPU.Memory is the host's field: re-attach (a mode-0 acceptance unwound by the
			// panic leaves its overlay there on this tree)
			run.Memory, twin.Memory = memR, memT
			memR.Hook, memT.Hook = inners[0], inners[1]
			if ft && fr {
				if run.States != twin.States {
					bad = "state at the moment of a recovered device panic differs between Run and repeated Step"
				}
				lfaults++
			}
			lost, flagDisagrees = 0, false
		}
		for call := 0; call < 400 && bad == ""; call++ {
			memT.ClearLog()
			memR.ClearLog()
			nT, nR := len(ioT.Log), len(ioR.Log)
			preHalted := twin.HALT && call > 0 && twin.Interrupt == nil
			preStates := twin.States
			preFired := plan.Fired(twin)
			tErr, tSteps, ok := twinRun(twin, 400000, plan, &lost, memT, &flagDisagrees, &devHALT)
			if !ok {
				return // pilot said it halts; with breakpoints it must too — but be safe
			}
			lsteps += int64(tSteps)
			// logical watchdog from the twin's access count
			memR.Budget = memR.Count + 2*uint64(len(memT.Log)) + 64
			var rErr error
			var pan interface{}
			func() {
				defer func() { pan = recover() }()
				rErr = run.Run(context.Background())
			}()
			memR.Budget = 0
			lcalls++
			if pan != nil {
				if be, isB := pan.(mon.BudgetExceeded); isB {
					bad = fmt.Sprintf("Run does not return where repeated Step stops (bus accesses %d > twin-derived budget)", be.Count)
				} else {
					bad = fmt.Sprintf("panic in Run: %v", pan)
				}
				break
			}
			switch {
			case rErr != tErr:
				bad = fmt.Sprintf("Run returned %v, stop rule on repeated Step gives %v", rErr, tErr)
			case run.States != twin.States:
				bad = "final state differs from repeated Step"
				if run.PC != twin.PC {
					bad = fmt.Sprintf("Run stopped at PC=%04X, repeated Step with the stop rule stops at %04X", run.PC, twin.PC)
				}
			case run.HALT != twin.HALT:
				bad = fmt.Sprintf("HALT indication %v, want %v", run.HALT, twin.HALT)
			case !mon.EqualSeq(memR.Log, memT.Log):
				bad = fmt.Sprintf("bus log differs from repeated Step (%d vs %d accesses): a Step more or fewer", len(memR.Log), len(memT.Log))
			case !mon.EqualSeq(ioR.Log[nR:], ioT.Log[nT:]):
				bad = "port log differs from repeated Step"
			case (run.Interrupt == nil) != (twin.Interrupt == nil):
				bad = "pending request differs from repeated Step"
			}
			if bad != "" {
				break
			}
			// direct statements of the property
			if rErr == z80.ErrBreakPoint {
				lbp++
				if _, hit := bps[run.PC]; !hit {
					bad = "ErrBreakPoint but PC is not a breakpoint"
				}
			} else {
				lhalt++
				if !run.HALT || (memR.Data[run.PC] != 0x76 && !devHALT) {
					bad = "nil return but not halted on a HALT opcode"
				}
			}
			if tSteps < 1 {
				bad = "no Step executed"
			}
			if flagDisagrees {
				bad = "the halted indication after a Step does not say whether that Step executed a HALT opcode"
			}
			if lost > 0 {
				bad = "a request raised by a memory/port callback was dropped instead of being honoured at the next boundary"
			}
			if preHalted && rErr == nil && twin.Interrupt == nil && preStates.PC == p.HaltAddr && plan.Fired(twin) == preFired {
				// Run again on a halted CPU: same address, registers except R unchanged
				a, b := preStates, run.States
				a.IR.Lo, b.IR.Lo = 0, 0
				lrerun++
				if a != b {
					bad = "Run on a halted CPU changed registers"
				}
			}
			if run.Interrupt == nil && twin.Interrupt == nil && rErr == nil && run.PC == p.HaltAddr {
				if call > 0 && preHalted {
					break // done: re-run on halted CPU observed
				}
			}
			if rErr == nil && run.PC != p.HaltAddr {
				break // halted somewhere else (derailed by IM0 known finding): stop here
			}
			// the user edits the breakpoint set between two Run calls: same size, other
			// members (both twins share the map)
			if bps != nil && len(bps) > 0 && call%3 == 1 && len(trace) > 0 {
				for a := range bps {
					if a != run.PC {
						delete(bps, a)
						break
					}
				}
				for tries := 0; tries < 8 && len(bps) < bpSize; tries++ {
					bps[trace[r.Intn(len(trace))]] = struct{}{}
				}
				for len(bps) < bpSize {
					bps[r.U16()] = struct{}{}
				}
				bpEdits++
			}
		}
		for _, a := range trace {
			if a == 0x0066 || a == 0x0038 || a == p.HandlerAddr() {
				accepted = true
			}
		}
		mu.Lock()
		evals++
		runCalls += lcalls
		bpStops += lbp
		haltStops += lhalt
		totalSteps += lsteps
		rerunHalted += lrerun
		faultCfgs += lfaults
		bpClassCount[bpClass]++
		if stale {
			staleHalt++
		}
		bpEditsTotal += int64(bpEdits)
		if plan != nil {
			withIRQ++
			if accepted {
				irqAccepted++
			}
		}
		if p.Wrapped && o.Wrap {
			wrapProgs++
		}
		if o.HaltAtTop {
			haltTop++
		}
		mu.Unlock()
		distinct.Add(mon.Hash(uint64(ci), uint64(len(p.Code)), uint64(len(bps))))
		if bad != "" {
			sig := bad
			if len(sig) > 40 {
				sig = sig[:40]
			}
			var bl []string
			for a := range bps {
				bl = append(bl, h16(a))
			}
			c.R.Violation(fmt.Sprintf("C08/%s/%s", bpClass, sig), map[string]interface{}{
				"what": bad, "config": ci, "breakpoints": bl, "bp_class": bpClass, "stale_HALT": stale, "base": h16(p.Base), "halt_addr": h16(p.HaltAddr),
				"code": HexBytes(p.Code), "run": DumpState(&run.States, run.HALT), "twin": DumpState(&twin.States, twin.HALT),
				"irq_at": planAt(plan), "run_calls": lcalls})
		}
		if ci < 4 {
			var bl []string
			for a := range bps {
				bl = append(bl, h16(a))
			}
			c.R.Sample(map[string]interface{}{"config": ci, "bp_class": bpClass, "breakpoints": bl, "stale_HALT": stale,
				"run_calls": lcalls, "breakpoint_stops": lbp, "halt_stops": lhalt, "steps": lsteps, "base": h16(p.Base), "halt_addr": h16(p.HaltAddr)})
		}
	})
	// ---- bundled memory types handed to the CPU directly (no monitor in between), requests
	// pending from the start, raised by port callbacks and injected between Run calls, and a
	// port callback that bank-switches by assigning another memory to CPU.Memory
	ndirect := c.Pick(2000, 60000)
	var directCalls, directSwaps int64
	Parallel(ndirect, func(di int) {
		defer func() {
			if pn := recover(); pn != nil {
				c.R.Violation("C08/direct/panic", map[string]interface{}{"config": di, "panic": fmt.Sprint(pn)})
			}
		}()
		r := mon.NewRng(mon.Hash(uint64(c.Seed), uint64(di), 0xC08D))
		o := GenOpts{Base: 0x0100, MinBlocks: 1, MaxBlocks: 14, IM: r.Intn(3)}
		p := GenProgram(r, o)
		img := &mon.Mem{}
		img.Fill(r.U64())
		p.Install(img)
		useMap := di%2 == 1
		mk := func() z80.Memory {
			if useMap {
				m := make(z80.MapMemory, 65536)
				for a := 0; a < 65536; a++ {
					m[uint16(a)] = img.Data[a]
				}
				return m
			}
			d := make(z80.DumbMemory, 65536)
			copy(d, img.Data[:])
			return d
		}
		memR, memT := mk(), mk()
		// the other bank: same code, different data area
		var altR, altT z80.Memory
		swapAt := uint64(0)
		if p.HasIO && r.Intn(3) == 0 {
			altR, altT = mk(), mk()
			for a := 0; a < 0x100; a++ {
				v := r.U8()
				altR.Set(genData+uint16(a), v)
				altT.Set(genData+uint16(a), v)
			}
			swapAt = uint64(1 + r.Intn(4))
		}
		ioSeed := r.U64()
		ioR, ioT := &mon.IO{Seed: ioSeed}, &mon.IO{Seed: ioSeed}
		run := &z80.CPU{States: p.Init, Memory: memR, IO: ioR}
		twin := &z80.CPU{States: p.Init, Memory: memT, IO: ioT}
		mkReq := func() *z80.Interrupt {
			switch r.Intn(4) {
			case 0:
				return z80.NMIInterrupt()
			}
			switch o.IM {
			case 0:
				if r.Bool() {
					return z80.IM0Interrupt(uint8(0xcf | r.Intn(7)<<3))
				}
				h := p.HandlerAddr()
				return z80.IM0Interrupt(0xcd, uint8(h), uint8(h>>8))
			case 1:
				return z80.IM1Interrupt()
			}
			return z80.IM2Interrupt(uint8(r.Intn(128) * 2))
		}
		if r.Bool() {
			q := mkReq()
			run.Interrupt, twin.Interrupt = copyIntr(q), copyIntr(q)
		}
		ioReqAt := uint64(0)
		var ioReq *z80.Interrupt
		if p.HasIO && r.Bool() {
			ioReqAt = uint64(1 + r.Intn(5))
			ioReq = mkReq()
		}
		hook := func(cpu *z80.CPU, alt z80.Memory) func(*mon.IO, mon.Access) {
			return func(o *mon.IO, a mon.Access) {
				if ioReqAt != 0 && o.N == ioReqAt {
					cpu.Interrupt = copyIntr(ioReq)
				}
				if swapAt != 0 && o.N == swapAt && alt != nil {
					cpu.Memory = alt
				}
			}
		}
		ioR.Hook = hook(run, altR)
		ioT.Hook = hook(twin, altT)
		var bps map[uint16]struct{}
		switch r.Intn(4) {
		case 0:
			bps = map[uint16]struct{}{p.HaltAddr: {}}
		case 1:
			bps = map[uint16]struct{}{p.HandlerAddr(): {}, 0x0066: {}, 0x0038: {}}
		}
		run.BreakPoints, twin.BreakPoints = bps, bps
		bad := ""
		calls := 0
		for call := 0; call < 40 && bad == ""; call++ {
			// twin under the stop rule (flag-independent notion of HALT is not available
			// without a bus log: the flag is used here, C08's monitored phase checks it)
			twin.HALT = false
			var tErr error
			tDone := false
			for st := 0; st < 300000; st++ {
				twin.Step()
				if twin.BreakPoints != nil {
					if _, hit := twin.BreakPoints[twin.PC]; hit {
						tErr, tDone = z80.ErrBreakPoint, true
						break
					}
				}
				if twin.HALT {
					tDone = true
					break
				}
			}
			if !tDone {
				return // does not stop (derailed by the mode-0 known finding): no verdict
			}
			ctx, cancel := context.WithTimeout(context.Background(), 60*time.Second)
			rErr := run.Run(ctx)
			cancel()
			calls++
			if rErr == context.DeadlineExceeded {
				c.R.Inconclusive(fmt.Sprintf("C08 direct-memory config %d: Run still going after 60 s where the Step-driven twin stops at once", di))
				return
			}
			switch {
			case rErr != tErr:
				bad = fmt.Sprintf("Run returned %v, stop rule on repeated Step gives %v", rErr, tErr)
			case run.States != twin.States || run.HALT != twin.HALT:
				bad = "final state differs from repeated Step"
			case (run.Interrupt == nil) != (twin.Interrupt == nil):
				bad = "pending request differs from repeated Step"
			case !mon.EqualSeq(ioR.Log, ioT.Log):
				bad = "port log differs from repeated Step"
			}
			if bad == "" && rErr == nil && twin.Interrupt == nil {
				if call > 0 {
					break
				}
				// once more on the halted CPU, now with a request injected between the calls
				if r.Bool() {
					q := mkReq()
					run.Interrupt, twin.Interrupt = copyIntr(q), copyIntr(q)
				}
			}
		}
		if bad == "" {
			for a := 0; a < 65536; a++ {
				if run.Memory.Get(uint16(a)) != twin.Memory.Get(uint16(a)) {
					bad = fmt.Sprintf("memory at %04X differs from repeated Step", a)
					break
				}
			}
		}
		mu.Lock()
		directCalls += int64(calls)
		if swapAt != 0 {
			directSwaps++
		}
		mu.Unlock()
		if bad != "" {
			sig := bad
			if len(sig) > 40 {
				sig = sig[:40]
			}
			kind := "DumbMemory"
			if useMap {
				kind = "MapMemory"
			}
			c.R.Violation(fmt.Sprintf("C08/direct-%s/%s", kind, sig), map[string]interface{}{
				"what": bad, "config": di, "memory": kind, "IM": o.IM, "bank_switch_at_port_access": swapAt, "request_at_port_access": ioReqAt,
				"code": HexBytes(p.Code), "run": DumpState(&run.States, run.HALT), "twin": DumpState(&twin.States, twin.HALT)})
		}
	})
	runCalls += directCalls
	c.R.Set("direct_memory_configurations", int64(ndirect))
	c.R.Set("direct_memory_run_calls", directCalls)
	c.R.Set("direct_memory_bank_switch_configs", directSwaps)

	c.R.Set("configurations_with_a_recovered_device_panic", faultCfgs)
	c.R.Set("evaluations", runCalls)
	c.R.Set("configurations", evals)
	c.R.Set("run_calls_compared", runCalls)
	c.R.Set("distinct_nontrivial", distinct.N())
	c.R.Set("breakpoint_stops", bpStops)
	c.R.Set("halt_stops", haltStops)
	c.R.Set("runs_on_halted_cpu", rerunHalted)
	c.R.Set("stale_halt_configs", staleHalt)
	c.R.Set("breakpoint_set_edits_between_runs", bpEditsTotal)
	c.R.Set("configs_with_callback_interrupts", withIRQ)
	c.R.Set("configs_where_a_handler_ran", irqAccepted)
	c.R.Set("wraparound_programs", wrapProgs)
	c.R.Set("halt_at_FFFF_programs", haltTop)
	c.R.Set("breakpoint_classes", bpClassCount)
	c.R.Set("twin_steps", totalSteps)
	c.R.Set("exhaustive", false)
	c.R.Set("rule", "generated terminating programs (as C07, plus programs laid around 0000 so that control flow wraps FFFF->0000 and programs whose final HALT sits exactly at FFFF) x breakpoint sets {nil, empty, start PC, HALT address, addresses inside multi-byte instructions, addresses taken from the PC trace, random, handler entry points} x {fresh, stale HALT=true} x memory/port callbacks raising NMI/INT at chosen access counts, installed identically on both twins (in 1/4 of them a request is raised by the very read that delivers the final HALT opcode); the breakpoint set is edited between Run calls (same size, other members); the twin decides 'this Step executed a HALT' from the opcode it fetched, not from the flag; in every 6th configuration the device panics once in the middle of the first Run (and of the twin's Step at the same bus access) and the host recovers and calls Run again; Run is called repeatedly (continuing after every breakpoint stop, then once more on the halted CPU) and after every call compared with a twin CPU driven by Step under the property's stop rule: return value, full States incl. R, HALT, pending request, and the full ordered memory and port logs (so not one Step more or fewer); logical watchdog = twin's access count x2+64. A second phase repeats the Run-vs-Step comparison (states, port logs, final memory) on 64 KiB z80.DumbMemory / z80.MapMemory handed to the CPU directly, with requests pending from the start, raised by port callbacks and injected between calls, and with a port callback that bank-switches by assigning another memory to CPU.Memory. Distinct = distinct configurations (program, breakpoint set); every configuration executes at least one Run call")
	c.R.Assume("programs derailed by the C07 known finding (mode-0 resume address) are compared only as far as both twins go; Run and Step derail identically")
}

func planAt(pl *irqPlan) interface{} {
	if pl == nil {
		return nil
	}
	return map[string]interface{}{"mem_access_counts": pl.At, "kinds_0nmi_1int": pl.Kind, "io_access_counts": pl.IOAt}
}
