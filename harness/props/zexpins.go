package props

import (
	"crypto/sha256"
	"encoding/hex"
	"encoding/json"
	"fmt"
	"os"
	"path/filepath"
	"strings"

	"github.com/koron-go/z80/verif/mon"
)

// ZexRecord is one canonical exerciser record as found in the program image.
type ZexRecord struct {
	Ptr    uint16 `json:"ptr"`    // address of the record in the loaded image
	Mask   uint8  `json:"mask"`   // flag mask
	Base   string `json:"base"`   // 20 bytes hex
	Inc    string `json:"inc"`    // 20 bytes hex
	Shift  string `json:"shift"`  // 20 bytes hex
	CRC    uint32 `json:"crc"`    // expected CRC (stored big-endian in the image)
	Msg    string `json:"msg"`    // message with dot padding stripped
	Raw    string `json:"raw"`    // the 65 record bytes, hex
	RawMsg string `json:"rawmsg"` // message bytes up to '$', hex
}

// ZexPins is the content of pins/<image>.json.
type ZexPins struct {
	Image   string      `json:"image"`
	SHA256  string      `json:"sha256"`
	Table   uint16      `json:"table"` // address of the pointer table
	Records []ZexRecord `json:"records"`
}

const cimLoad = 0x0100

// ParseZexImage locates the pointer table through the `ld hl,tests`
// instruction of the program's start-up code and decodes every record.
func ParseZexImage(img []byte) (table uint16, recs []ZexRecord, err error) {
	at := func(a uint16) (uint8, bool) {
		i := int(a) - cimLoad
		if i < 0 || i >= len(img) {
			return 0, false
		}
		return img[i], true
	}
	// find "ld hl,nn" (0x21) within the first 64 bytes whose operand points
	// at a plausible pointer table; the canonical program has it at 0x0120.
	found := false
	for off := 0; off < 64 && off+2 < len(img); off++ {
		if img[off] != 0x21 {
			continue
		}
		t := uint16(img[off+1]) | uint16(img[off+2])<<8
		// the instruction right after must be the loop head `ld a,(hl)` (7E)
		if off+3 < len(img) && img[off+3] == 0x7e && int(t) > cimLoad+off && int(t)-cimLoad < len(img) {
			table = t
			found = true
			break
		}
	}
	if !found {
		return 0, nil, fmt.Errorf("ld hl,tests not found")
	}
	for p := table; ; p += 2 {
		lo, ok1 := at(p)
		hi, ok2 := at(p + 1)
		if !ok1 || !ok2 {
			return table, recs, fmt.Errorf("pointer table runs off the image")
		}
		ptr := uint16(lo) | uint16(hi)<<8
		if ptr == 0 {
			break
		}
		var raw [65]byte
		for i := range raw {
			b, ok := at(ptr + uint16(i))
			if !ok {
				return table, recs, fmt.Errorf("record at %04x runs off the image", ptr)
			}
			raw[i] = b
		}
		var msg []byte
		for a := ptr + 65; ; a++ {
			b, ok := at(a)
			if !ok {
				return table, recs, fmt.Errorf("message at %04x unterminated", ptr)
			}
			if b == '$' {
				break
			}
			msg = append(msg, b)
			if len(msg) > 200 {
				return table, recs, fmt.Errorf("message at %04x too long", ptr)
			}
		}
		recs = append(recs, ZexRecord{
			Ptr:    ptr,
			Mask:   raw[0],
			Base:   hex.EncodeToString(raw[1:21]),
			Inc:    hex.EncodeToString(raw[21:41]),
			Shift:  hex.EncodeToString(raw[41:61]),
			CRC:    uint32(raw[61])<<24 | uint32(raw[62])<<16 | uint32(raw[63])<<8 | uint32(raw[64]),
			Msg:    strings.TrimRight(string(msg), "."),
			Raw:    hex.EncodeToString(raw[:]),
			RawMsg: hex.EncodeToString(msg),
		})
		if len(recs) > 1000 {
			return table, recs, fmt.Errorf("pointer table unterminated")
		}
	}
	return table, recs, nil
}

func pinsDir() string { return filepath.Join(mon.VerifDir(), "pins") }

// GenPins writes pins/zexdoc.json and pins/zexall.json from the images under
// repo (run once, on the pristine pinned tree; the result is committed).
func GenPins(repo string) error {
	for _, name := range []string{"zexdoc", "zexall"} {
		img, err := os.ReadFile(filepath.Join(repo, "cmd/zexdoc", name+".cim"))
		if err != nil {
			return err
		}
		table, recs, err := ParseZexImage(img)
		if err != nil {
			return err
		}
		sum := sha256.Sum256(img)
		p := ZexPins{Image: name + ".cim", SHA256: hex.EncodeToString(sum[:]), Table: table, Records: recs}
		b, _ := json.MarshalIndent(p, "", " ")
		os.MkdirAll(pinsDir(), 0o755)
		if err := os.WriteFile(filepath.Join(pinsDir(), name+".json"), append(b, '\n'), 0o644); err != nil {
			return err
		}
		fmt.Printf("%s: table=%04x records=%d sha256=%s\n", name, table, len(recs), p.SHA256)
	}
	return nil
}

// LoadPins reads pins/<name>.json.
func LoadPins(name string) (*ZexPins, error) {
	b, err := os.ReadFile(filepath.Join(pinsDir(), name+".json"))
	if err != nil {
		return nil, err
	}
	var p ZexPins
	if err := json.Unmarshal(b, &p); err != nil {
		return nil, err
	}
	return &p, nil
}
