package props

import (
	"encoding/json"
	"fmt"
	"os"
	"strconv"
	"strings"
	"sync"

	"github.com/koron-go/z80"
	"github.com/koron-go/z80/verif/mon"
	"github.com/koron-go/z80/verif/ref"
)

func init() {
	register("C01", "exploration", func(c *Ctx) { runStepSweep(c, "C01") })
	register("C05", "exploration", func(c *Ctx) { runStepSweep(c, "C05") })
}

var rigPool = sync.Pool{New: func() interface{} { return NewStepRig(1) }}

// judged aspects per property
func stepAspects(prop string) int {
	switch prop {
	case "C01":
		return BadState | BadMem | BadPortOut | BadPanic | BadDirect
	case "C05":
		return BadBus | BadPortLog | BadPanic | BadDirect
	}
	return 0
}

// WarnScan runs every encoding of every table a few times with the log
// monitor attached (single-threaded: the std logger is process-global) and
// returns for each encoding key whether the emulator logged "invalid code".
func WarnScan(seed uint64, perEnc int) (warned map[int]bool, steps int) {
	lc := mon.CaptureStdLog()
	defer mon.DiscardStdLog()
	warned = map[int]bool{}
	mem := &mon.Mem{}
	mem.Fill(seed)
	io := &mon.IO{}
	r := mon.NewRng(seed ^ 0x5ca9)
	for _, enc := range AllEncodings() {
		for k := 0; k < perEnc; k++ {
			c := MakeStepCase(enc, r, k)
			mem.Reset()
			mem.Place(c.Pre.PC, c.Bytes...)
			io.Reset(c.IOSeed)
			cpu := z80.CPU{States: c.Pre, Memory: mem, IO: io}
			before := lc.Lines()
			func() {
				defer func() { recover() }()
				cpu.Step()
			}()
			steps++
			if lc.Lines() != before {
				warned[enc.Key()] = true
			}
		}
	}
	return warned, steps
}

// inScopeKeys returns the set of keys of the implemented encodings.
func inScopeKeys() map[int]bool {
	m := map[int]bool{}
	for _, e := range InScopeEncodings() {
		m[e.Key()] = true
	}
	return m
}

func runStepSweep(c *Ctx, prop string) {
	if c.Replay != "" {
		replayStep(c, prop)
		return
	}
	if !RequireOracle(c) {
		return
	}
	mon.DiscardStdLog()
	encs := InScopeEncodings()
	n := c.Pick(3000, 300000)
	aspects := stepAspects(prop)
	distinct := mon.NewDistinct(6_000_000)
	var mu sync.Mutex
	var evals, nontrivial, busEvents, wrapPC, portEvents, taken, untaken, repeats, preHalted, directRuns int64
	encSeen := map[int]int64{}
	violEnc := map[string]int{}

	// pass 1: warn scan — an implemented encoding that logs "invalid code"
	// lost its decode arm; (reported by C01 only)
	warned, wsteps := WarnScan(uint64(c.Seed), 4)
	inScope := inScopeKeys()
	lost := 0
	extra := 0
	for _, e := range AllEncodings() {
		if inScope[e.Key()] && warned[e.Key()] {
			lost++
			if prop == "C01" {
				c.R.Violation("C01/arm-lost/"+e.String(), map[string]interface{}{
					"encoding": e.String(), "what": "implemented encoding logged 'invalid code'"})
			}
		}
		if !inScope[e.Key()] && !warned[e.Key()] {
			extra++
		}
	}
	c.R.Set("encodings_in_scope", int64(len(encs)))
	c.R.Set("encodings_seen_warn_free", int64(len(encs)-lost))
	c.R.Set("warn_scan_steps", int64(wsteps))
	c.R.Set("encodings_warn_free_but_outside_pinned_scope", int64(extra))
	if extra > 0 {
		// the emulator now executes encodings the reference model does not cover:
		// "every implemented encoding" can no longer be claimed until the model's
		// scope (ref.DDInScope/EDInScope) is extended
		var names []string
		for _, e := range AllEncodings() {
			if !inScope[e.Key()] && !warned[e.Key()] && len(names) < 12 {
				names = append(names, e.String())
			}
		}
		c.R.Inconclusive(fmt.Sprintf("%d encodings outside the reference model's scope execute without the 'invalid code' warning (%v): the model must be extended before %s can be claimed for them", extra, names, prop))
	}

	Parallel(len(encs), func(si int) {
		enc := encs[si]
		rig := rigPool.Get().(*StepRig)
		defer rigPool.Put(rig)
		r := mon.NewRng(mon.Hash(uint64(c.Seed), uint64(enc.Key()), 0xC01))
		rig.Refill(r.U64())
		var lev, lnt, lbus, lwrap, lport, ltk, lutk, lrep, lhalt, ldirect int64
		for k := 0; k < n; k++ {
			if k&1023 == 1023 {
				rig.Refill(r.U64())
			}
			sc := MakeStepCase(enc, r, k)
			// every 16th case: the halted indication is already true (it is sticky;
			// Step must behave identically); every 8th case also runs on a bundled
			// memory type handed to the CPU directly
			sc.PreHALT = k%16 == 9
			sc.NoHandlers = k%4 == 3
			sc.PendingRefused = k%16 == 6
			if k%16 == 11 {
				sc.RaiseDuring = 1 + (k>>4)%3
			}
			rig.Direct = 0
			if k%8 == 5 {
				rig.Direct = 1 + (k/8)%2
			}
			o := rig.Run(&sc)
			rig.Direct = 0
			lev++
			if sc.PreHALT {
				lhalt++
			}
			if k%8 == 5 {
				ldirect++
			}
			if !o.Info.InScope {
				// generator and model disagree on scope: harness bug
				c.R.Inconclusive("reference model reports out-of-scope for " + enc.String())
				return
			}
			lbus += int64(len(rig.RefMem.Log))
			lport += int64(len(rig.RefIO.Log))
			if uint16(sc.Pre.PC+uint16(len(enc.Bytes(0)))) < sc.Pre.PC || sc.Pre.PC > 0xfffc {
				lwrap++
			}
			if o.Info.Cond {
				if o.Info.Taken {
					ltk++
				} else {
					lutk++
				}
			}
			if o.Info.Repeat {
				lrep++
			}
			if o.Changed || o.NData > 0 {
				lnt++
				if lev <= 4096 || k%7 == 0 {
					distinct.Add(mon.Hash(uint64(enc.Key()), uint64(k), sc.IOSeed, uint64(sc.Pre.PC)<<16|uint64(sc.Pre.SP)))
				}
			}
			if o.Bad&aspects != 0 {
				sig := fmt.Sprintf("%s/%s/%s", prop, enc.String(), BadString(o.Bad&aspects))
				w := rig.Witness(enc, &sc, &o)
				w["case_index"] = k
				if c.R.Violation(sig, w) {
					mu.Lock()
					violEnc[enc.String()]++
					mu.Unlock()
				}
			}
			if k == 5 && si%97 == 0 {
				c.R.Sample(map[string]interface{}{
					"encoding": enc.String(), "bytes": HexBytes(sc.Bytes), "pre": DumpState(&sc.Pre, false),
					"post": DumpState(&o.Post, o.PostHALT), "bus": DumpAccesses(rig.EmuMem.Log), "ports": DumpAccesses(rig.EmuIO.Log),
				})
			}
		}
		mu.Lock()
		evals += lev
		nontrivial += lnt
		busEvents += lbus
		portEvents += lport
		wrapPC += lwrap
		taken += ltk
		untaken += lutk
		repeats += lrep
		preHalted += lhalt
		directRuns += ldirect
		encSeen[enc.Key()] += lev
		mu.Unlock()
	})

	// chains: the same CPU object executes sequences of random implemented
	// instructions written on an instruction tape at the current PC; the
	// post-state of one Step is the pre-state of the next, so state that leaks
	// between consecutive operations (stale prefix, cached decode, hidden
	// flags) shows up against the memoryless reference model
	{
		nchain := c.Pick(4000, 400000)
		const chainLen = 48
		var chainSteps int64
		Parallel(64, func(sh int) {
			rig := rigPool.Get().(*StepRig)
			defer func() {
				rig.Chained = false
				rig.BreakChain()
				rigPool.Put(rig)
			}()
			rig.Chained = true
			rig.BreakChain()
			r := mon.NewRng(mon.Hash(uint64(c.Seed), uint64(sh), 0xC01C))
			rig.Refill(r.U64())
			var ls int64
			for ch := 0; ch < nchain/64; ch++ {
				rig.BreakChain()
				st := RandStates(r)
				var trail []string
				for k := 0; k < chainLen; k++ {
					if k > 0 && r.Intn(10) == 0 && rig.CPU != nil {
						// the same CPU object accepts a request here (NMI, or mode 1 with IFF1 set):
						// whatever book-keeping an implementation attaches to acceptance is now
						// armed on this object while the chain goes on (RETN/RETI/EI/DI come by)
						rig.CPU.States = st
						rig.CPU.HALT = false
						if r.Bool() {
							rig.CPU.Interrupt = z80.NMIInterrupt()
						} else {
							rig.CPU.States.IM, rig.CPU.States.IFF1 = 1, true
							rig.CPU.Interrupt = z80.IM1Interrupt()
						}
						func() {
							defer func() { recover() }()
							rig.CPU.Step()
						}()
						rig.CPU.Interrupt = nil
						st = rig.CPU.States
						trail = append(trail, "<request accepted>")
					}
					enc := encs[r.Intn(len(encs))]
					sc := MakeStepCase(enc, r, r.Intn(1<<16))
					f := st.AF.Lo
					sc.Pre = st
					sc.Pre.AF.Lo = f
					sc.MoveCPU = k > 0 && r.Intn(6) == 0
					o := rig.Run(&sc)
					ls++
					trail = append(trail, enc.String())
					if o.Bad&aspects != 0 {
						w := rig.Witness(enc, &sc, &o)
						w["chain_of_encodings_before"] = trail
						w["chain_position"] = k
						c.R.Violation(fmt.Sprintf("%s/chain/%s/%s", prop, enc.String(), BadString(o.Bad&aspects)), w)
						break
					}
					st = o.Post
					if o.Bad&BadPanic != 0 {
						break
					}
				}
			}
			mu.Lock()
			chainSteps += ls
			mu.Unlock()
		})
		evals += chainSteps
		c.R.Set("chained_steps", chainSteps)
		c.R.Set("chains", int64(nchain))
	}

	// nil-IO pass: the port instructions with no device attached (IN reads 0)
	{
		var nilEv int64
		rig := NewStepRig(uint64(c.Seed) ^ 0x10)
		rig.NilIO = true
		r := mon.NewRng(uint64(c.Seed) ^ 0x77)
		for _, enc := range encs {
			for k := 0; k < 64; k++ {
				sc := MakeStepCase(enc, r, k)
				o := rig.Run(&sc)
				nilEv++
				if o.Bad&aspects != 0 {
					w := rig.Witness(enc, &sc, &o)
					w["nil_io"] = true
					c.R.Violation(fmt.Sprintf("%s/nil-io/%s/%s", prop, enc.String(), BadString(o.Bad&aspects)), w)
				}
			}
		}
		c.R.Set("nil_io_steps", nilEv)
		evals += nilEv
	}

	// short-memory / ROM pass: the upper part of the address space keeps no write.
	// Either it reads 0 (a z80.DumbMemory shorter than 64 KiB; also handed over
	// directly) or it holds bytes (ROM).  Pointers and PC are pulled to the border.
	{
		var limEv int64
		type lim struct {
			at   uint32
			zero bool
		}
		lims := []lim{{1, true}, {2, true}, {0x20, true}, {0x100, true}, {0x4000, true}, {0x8000, true}, {0xfffe, true}, {0xffff, true},
			{0x2000, false}, {0x8000, false}, {0xc000, false}}
		var lmu sync.Mutex
		Parallel(len(lims), func(li int) {
			l := lims[li]
			rig := NewStepRig(uint64(c.Seed) ^ 0x5107 ^ uint64(li))
			rig.SetLimit(l.at, l.zero)
			if l.zero {
				rig.Direct = 1
			}
			r := mon.NewRng(mon.Hash(uint64(c.Seed), uint64(li), 0x5107))
			near := func() uint16 { return uint16(l.at) + uint16(r.Intn(9)) - 4 }
			var ev int64
			per := c.Pick(6, 48)
			for _, enc := range encs {
				for k := 0; k < per; k++ {
					sc := MakeStepCase(enc, r, r.Intn(1<<16))
					if r.Intn(3) == 0 {
						sc.Pre.PC = near()
					}
					if r.Intn(2) == 0 {
						sc.Pre.SP = near()
					}
					if r.Intn(2) == 0 {
						sc.Pre.HL.SetU16(near())
					}
					if r.Intn(3) == 0 {
						sc.Pre.BC.SetU16(near())
					}
					if r.Intn(3) == 0 {
						sc.Pre.DE.SetU16(near())
					}
					if r.Intn(2) == 0 {
						sc.Pre.IX = near() - uint16(int8(sc.Bytes[len(sc.Bytes)-3]))
						sc.Pre.IY = near() - uint16(int8(sc.Bytes[len(sc.Bytes)-3]))
						if enc.Table == ref.TDDCB || enc.Table == ref.TFDCB {
							sc.Pre.IX = near() - uint16(int8(sc.Bytes[2]))
							sc.Pre.IY = near() - uint16(int8(sc.Bytes[2]))
						}
					}
					if !l.zero && r.Intn(2) == 0 {
						// ROM: anywhere inside it
						sc.Pre.HL.SetU16(uint16(l.at) + uint16(r.Intn(int(65536-l.at))))
					}
					o := rig.Run(&sc)
					ev++
					if o.Bad&aspects != 0 {
						w := rig.Witness(enc, &sc, &o)
						kind := "rom"
						if l.zero {
							kind = "short-memory"
						}
						c.R.Violation(fmt.Sprintf("%s/%s/%s/%s", prop, kind, enc.String(), BadString(o.Bad&aspects)), w)
					}
				}
			}
			lmu.Lock()
			limEv += ev
			lmu.Unlock()
		})
		c.R.Set("steps_on_short_memory_or_rom", limEv)
		evals += limEv
	}

	c.R.Set("evaluations", evals)
	c.R.Set("steps", evals)
	c.R.Set("nontrivial_steps", nontrivial)
	c.R.Set("distinct_nontrivial", distinct.N())
	c.R.Set("distinct_capped", distinct.Capped)
	c.R.Set("bus_events_compared", busEvents)
	c.R.Set("port_events_compared", portEvents)
	c.R.Set("pc_wrap_cases", wrapPC)
	c.R.Set("conditional_taken", taken)
	c.R.Set("conditional_untaken", untaken)
	c.R.Set("block_repeats", repeats)
	c.R.Set("steps_with_HALT_already_true", preHalted)
	c.R.Set("steps_also_run_on_DumbMemory_or_MapMemory_directly", directRuns)
	c.R.Set("encodings_covered", int64(len(encSeen)))
	c.R.Set("states_per_encoding", int64(n))
	c.R.Set("exhaustive", false)
	if len(violEnc) > 0 {
		c.R.Set("violating_encodings", violEnc)
	}
	switch prop {
	case "C01":
		c.R.Set("rule", "every implemented encoding (930, all seven decode tables) x n boundary-biased pre-states (F and displacement cycled through all 256 values, PC straddling FFFF in ~1/8, pointers at/near 0000/FFFF/PC/SP), pseudo-random memory and device bytes, the halted indication already true in 1/16 of cases, no RETN/RETI handler registered in 1/4 of cases, a refused maskable request pending (IFF1 clear) in 1/16 of cases, a request raised by a memory/port callback DURING the instruction in 1/16 of cases (the Step is the instruction's, unchanged; the request stays pending), 1/8 of cases also executed on z80.DumbMemory / a fully populated z80.MapMemory handed to the CPU directly (outcome must not depend on the memory's type); one emulator Step vs one reference-model Step; a pass where the upper part of the address space keeps no write - reading 0 (a z80.DumbMemory of length 1, 2, 20h, 100h, 4000h, 8000h, FFFEh, FFFFh, also handed over directly) or holding bytes (ROM from 2000h/8000h/C000h) - with PC and pointers pulled to the border; plus chains of 48 random implemented instructions executed by ONE CPU object on an instruction tape (post-state of a Step = pre-state of the next) to expose state leaking between consecutive operations (every ~6th Step continues on a by-value copy of the CPU struct while the old struct is scribbled over; every ~10th position the same object first accepts an NMI or a mode-1 request); compared: all registers, F under the tolerance mask, I, IFF1/2, IM, HALT, full memory image, bytes sent to ports. A case is non-trivial when the Step changed a register other than PC/R, wrote memory, or touched a port or data byte; distinct = distinct (encoding, case index, pre-state, device seed) hashes among the non-trivial ones (sampled 1/7 beyond the first 4096 per encoding, exact set capped at 6M: a lower bound)")
	case "C05":
		c.R.Set("rule", "same workload as C01 (incl. the pass with no I/O device attached: memory traffic must be unchanged); compared per Step: multiset of memory reads (addr,value), multiset of memory writes (addr,value) and the ordered port log (direction, port, value) of the emulator against the reference model's bus log; non-trivial/distinct as in C01")
	}
	c.R.Assume("reference model ref/ (validated against the 134 hardware CRCs of zexdoc/zexall on every run) encodes the Z80 semantics; tolerances of DESIGN §2.3 (SCF/CCF and BIT-on-memory bits 3/5 masked, block-I/O flags documented-or-silicon, RETI IFF1)")
	c.R.Assume("sampled, not exhaustive: the pre-state space is ~2^230 per encoding")
	if evals == 0 || len(encSeen) != len(encs) {
		c.R.Inconclusive("not every encoding was exercised")
	}
}

// ---------------------------------------------------------------------------
// replay

func parseState(m map[string]interface{}) (z80.States, error) {
	var s z80.States
	g16 := func(k string) uint16 {
		v, _ := m[k].(string)
		x, _ := strconv.ParseUint(v, 16, 16)
		return uint16(x)
	}
	g8 := func(k string) uint8 {
		v, _ := m[k].(string)
		x, _ := strconv.ParseUint(v, 16, 8)
		return uint8(x)
	}
	s.AF.SetU16(g16("AF"))
	s.BC.SetU16(g16("BC"))
	s.DE.SetU16(g16("DE"))
	s.HL.SetU16(g16("HL"))
	s.Alternate.AF.SetU16(g16("AF2"))
	s.Alternate.BC.SetU16(g16("BC2"))
	s.Alternate.DE.SetU16(g16("DE2"))
	s.Alternate.HL.SetU16(g16("HL2"))
	s.IX, s.IY, s.SP, s.PC = g16("IX"), g16("IY"), g16("SP"), g16("PC")
	s.IR.Hi, s.IR.Lo = g8("I"), g8("R")
	s.IFF1, _ = m["IFF1"].(bool)
	s.IFF2, _ = m["IFF2"].(bool)
	if f, ok := m["IM"].(float64); ok {
		s.IM = int(f)
	}
	return s, nil
}

func parseHexBytes(s string) []uint8 {
	var out []uint8
	for _, f := range strings.Fields(s) {
		x, _ := strconv.ParseUint(f, 16, 8)
		out = append(out, uint8(x))
	}
	return out
}

func replayStep(c *Ctx, prop string) {
	b, err := os.ReadFile(c.Replay)
	if err != nil {
		c.R.Inconclusive("cannot read replay file: " + err.Error())
		return
	}
	var doc struct {
		Witness map[string]interface{} `json:"witness"`
	}
	if err := json.Unmarshal(b, &doc); err != nil || doc.Witness == nil {
		c.R.Inconclusive("bad replay file")
		return
	}
	w := doc.Witness
	pm, _ := w["pre"].(map[string]interface{})
	if pm == nil {
		c.R.Inconclusive("replay file has no single-Step witness")
		return
	}
	pre, _ := parseState(pm)
	bs := parseHexBytes(fmt.Sprint(w["bytes"]))
	ms, _ := w["mem_seed"].(float64)
	is, _ := w["io_seed"].(float64)
	rig := NewStepRig(uint64(ms))
	if v, _ := w["nil_io"].(bool); v {
		rig.NilIO = true
	}
	sc := StepCase{Pre: pre, Bytes: bs, IOSeed: uint64(is)}
	sc.PreHALT, _ = w["pre_halt"].(bool)
	sc.NoHandlers, _ = w["no_handlers"].(bool)
	sc.PendingRefused, _ = w["pending_refused"].(bool)
	if v, ok := w["raise_during"].(float64); ok {
		sc.RaiseDuring = int(v)
	}
	if d, ok := w["direct"].(float64); ok {
		rig.Direct = int(d)
	}
	if l, ok := w["limit"].(float64); ok && l != 0 {
		z, _ := w["limit_zero"].(bool)
		rig.SetLimit(uint32(l), z)
	}
	o := rig.Run(&sc)
	tb, _ := w["table"].(float64)
	opb, _ := w["op"].(float64)
	enc := Encoding{Table: int(tb), Op: uint8(opb)}
	if len(bs) > 0 && enc.Table != ref.TMain {
		enc.Prefix = bs[:1]
	}
	aspects := stepAspects(prop)
	if prop == "C14" {
		aspects = BadR
	}
	c.R.Set("evaluations", int64(1))
	c.R.Set("distinct_nontrivial", int64(1))
	out := rig.Witness(enc, &sc, &o)
	jb, _ := json.MarshalIndent(out, "", " ")
	fmt.Println(string(jb))
	if o.Bad&aspects != 0 {
		c.R.Violation(fmt.Sprintf("%s/%s/%s", prop, enc.String(), BadString(o.Bad&aspects)), out)
	} else {
		fmt.Println("replay: no disagreement on the current tree")
	}
}
