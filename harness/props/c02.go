package props

import (
	"fmt"
	"sync"

	"github.com/koron-go/z80"
	"github.com/koron-go/z80/verif/mon"
	"github.com/koron-go/z80/verif/ref"
)

func init() {
	register("C02", "exploration", runC02)
}

// fastMem: flat array, counts writes (bulk sweeps; no log).
type fastMem struct {
	d      [65536]uint8
	writes int
	lastW  uint16
	reads  int
	rom    bool  // the operand cell keeps no write (ROM, a mapped register, unpopulated space)
	romW   uint8 // what was written there last
}

func (m *fastMem) Get(a uint16) uint8 { m.reads++; return m.d[a] }
func (m *fastMem) Set(a uint16, v uint8) {
	m.writes++
	m.lastW = a
	if m.rom && a == c02Mem {
		m.romW = v
		return
	}
	m.d[a] = v
}

// operation kinds
const (
	kALU = iota // arg = y
	kINC
	kDEC
	kROT // arg = y
	kBIT // arg = bit
	kSET
	kRES
	kROTA // arg = y (RLCA RRCA RLA RRA)
	kDAA
	kCPL
	kSCF
	kCCF
	kNEG
	kRLD
	kRRD
)

// operand locations
const (
	lB = iota
	lC
	lD
	lE
	lH
	lL
	lMemHL
	lA
	lIXH
	lIXL
	lIYH
	lIYL
	lMemIX
	lMemIY
	lImm
	lNone
)

type aluEnc struct {
	Name  string
	Kind  int
	Arg   int
	Loc   int
	Bytes []uint8 // with placeholders: displacement at DPos, immediate at IPos
	DPos  int     // -1 none
	IPos  int     // -1 none
	Rep   bool    // representative encoding of its operation (complete cube in quick tier)
}

var regName = []string{"B", "C", "D", "E", "H", "L", "(HL)", "A", "IXH", "IXL", "IYH", "IYL", "(IX+d)", "(IY+d)", "n", ""}
var aluName = []string{"ADD", "ADC", "SUB", "SBC", "AND", "XOR", "OR", "CP"}
var rotName = []string{"RLC", "RRC", "RL", "RR", "SLA", "SRA", "SLL", "SRL"}

func c02Encodings() []aluEnc {
	var out []aluEnc
	add := func(e aluEnc) { out = append(out, e) }
	// 8 ALU ops x 25 operand encodings
	for y := 0; y < 8; y++ {
		for z := 0; z < 8; z++ {
			add(aluEnc{Name: aluName[y] + " A," + regName[z], Kind: kALU, Arg: y, Loc: z, Bytes: []uint8{uint8(0x80 | y<<3 | z)}, DPos: -1, IPos: -1, Rep: z == 0})
		}
		add(aluEnc{Name: aluName[y] + " A,n", Kind: kALU, Arg: y, Loc: lImm, Bytes: []uint8{uint8(0xc6 | y<<3), 0}, DPos: -1, IPos: 1})
		for pi, pf := range []uint8{0xdd, 0xfd} {
			for z := 0; z < 8; z++ {
				loc := z
				bs := []uint8{pf, uint8(0x80 | y<<3 | z)}
				dpos := -1
				switch z {
				case 4:
					loc = lIXH + 2*pi
				case 5:
					loc = lIXL + 2*pi
				case 6:
					loc = lMemIX + pi
					bs = append(bs, 0)
					dpos = 2
				}
				add(aluEnc{Name: fmt.Sprintf("%02X: %s A,%s", pf, aluName[y], regName[loc]), Kind: kALU, Arg: y, Loc: loc, Bytes: bs, DPos: dpos, IPos: -1})
			}
		}
	}
	// INC / DEC x 14
	for k, base := range []int{0x04, 0x05} {
		kind := kINC + k
		nm := []string{"INC", "DEC"}[k]
		for y := 0; y < 8; y++ {
			add(aluEnc{Name: nm + " " + regName[y], Kind: kind, Loc: y, Bytes: []uint8{uint8(base | y<<3)}, DPos: -1, IPos: -1, Rep: y == 0})
		}
		for pi, pf := range []uint8{0xdd, 0xfd} {
			add(aluEnc{Name: nm + " " + regName[lIXH+2*pi], Kind: kind, Loc: lIXH + 2*pi, Bytes: []uint8{pf, uint8(base | 4<<3)}, DPos: -1, IPos: -1})
			add(aluEnc{Name: nm + " " + regName[lIXL+2*pi], Kind: kind, Loc: lIXL + 2*pi, Bytes: []uint8{pf, uint8(base | 5<<3)}, DPos: -1, IPos: -1})
			add(aluEnc{Name: nm + " " + regName[lMemIX+pi], Kind: kind, Loc: lMemIX + pi, Bytes: []uint8{pf, uint8(base | 6<<3), 0}, DPos: 2, IPos: -1})
		}
	}
	// CB: rot, BIT, RES, SET x (8 + 2 indexed)
	for x := 0; x < 4; x++ {
		for y := 0; y < 8; y++ {
			kind, arg, nm := kROT, y, rotName[y]
			switch x {
			case 1:
				kind, nm = kBIT, fmt.Sprintf("BIT %d,", y)
			case 2:
				kind, nm = kRES, fmt.Sprintf("RES %d,", y)
			case 3:
				kind, nm = kSET, fmt.Sprintf("SET %d,", y)
			}
			for z := 0; z < 8; z++ {
				add(aluEnc{Name: nm + " " + regName[z], Kind: kind, Arg: arg, Loc: z, Bytes: []uint8{0xcb, uint8(x<<6 | y<<3 | z)}, DPos: -1, IPos: -1, Rep: z == 0 && (x == 0 || y == 7 || y == 0)})
			}
			for pi, pf := range []uint8{0xdd, 0xfd} {
				add(aluEnc{Name: nm + " " + regName[lMemIX+pi], Kind: kind, Arg: arg, Loc: lMemIX + pi, Bytes: []uint8{pf, 0xcb, 0, uint8(x<<6 | y<<3 | 6)}, DPos: 2, IPos: -1})
			}
		}
	}
	for y := 0; y < 4; y++ {
		add(aluEnc{Name: []string{"RLCA", "RRCA", "RLA", "RRA"}[y], Kind: kROTA, Arg: y, Loc: lNone, Bytes: []uint8{uint8(0x07 | y<<3)}, DPos: -1, IPos: -1, Rep: true})
	}
	add(aluEnc{Name: "DAA", Kind: kDAA, Loc: lNone, Bytes: []uint8{0x27}, DPos: -1, IPos: -1, Rep: true})
	add(aluEnc{Name: "CPL", Kind: kCPL, Loc: lNone, Bytes: []uint8{0x2f}, DPos: -1, IPos: -1, Rep: true})
	add(aluEnc{Name: "SCF", Kind: kSCF, Loc: lNone, Bytes: []uint8{0x37}, DPos: -1, IPos: -1, Rep: true})
	add(aluEnc{Name: "CCF", Kind: kCCF, Loc: lNone, Bytes: []uint8{0x3f}, DPos: -1, IPos: -1, Rep: true})
	add(aluEnc{Name: "NEG", Kind: kNEG, Loc: lNone, Bytes: []uint8{0xed, 0x44}, DPos: -1, IPos: -1, Rep: true})
	add(aluEnc{Name: "RLD", Kind: kRLD, Loc: lMemHL, Bytes: []uint8{0xed, 0x6f}, DPos: -1, IPos: -1, Rep: true})
	add(aluEnc{Name: "RRD", Kind: kRRD, Loc: lMemHL, Bytes: []uint8{0xed, 0x67}, DPos: -1, IPos: -1, Rep: true})
	return out
}

// oracle tables built from the definitional functions of ref
type c02Tables struct {
	alu [8][2][65536][2]uint8 // [y][cin][a<<8|v] -> r, f
	inc [256][2]uint8         // r, f (without C)
	dec [256][2]uint8
	rot [8][2][256][2]uint8
	daa [65536][2]uint8 // [f<<8|a]
}

var c02tab *c02Tables
var c02once sync.Once

func c02Tab() *c02Tables {
	c02once.Do(func() {
		t := &c02Tables{}
		for y := 0; y < 8; y++ {
			for cin := 0; cin < 2; cin++ {
				for av := 0; av < 65536; av++ {
					r, f := ref.Alu8(y, uint8(av>>8), uint8(av), uint8(cin))
					t.alu[y][cin][av] = [2]uint8{r, f}
				}
				for v := 0; v < 256; v++ {
					r, f := ref.Rot(y, uint8(v), uint8(cin))
					t.rot[y][cin][v] = [2]uint8{r, f}
				}
			}
		}
		for v := 0; v < 256; v++ {
			r, f := ref.Inc8(uint8(v), 0)
			t.inc[v] = [2]uint8{r, f}
			r, f = ref.Dec8(uint8(v), 0)
			t.dec[v] = [2]uint8{r, f}
		}
		for fa := 0; fa < 65536; fa++ {
			r, f := ref.Daa(uint8(fa), uint8(fa>>8))
			t.daa[fa] = [2]uint8{r, f}
		}
		c02tab = t
	})
	return c02tab
}

// spec: pure function (kind, arg, a, v, f) -> a', v', f', fmask
func c02Spec(t *c02Tables, e *aluEnc, a, v, f uint8) (na, nv, nf, mask uint8) {
	na, nv, nf, mask = a, v, f, 0xff
	switch e.Kind {
	case kALU:
		x := t.alu[e.Arg][f&1][int(a)<<8|int(v)]
		na, nf = x[0], x[1]
		if e.Loc == lA {
			nv = na
		}
	case kINC:
		x := t.inc[v]
		nv, nf = x[0], x[1]|f&ref.FC
	case kDEC:
		x := t.dec[v]
		nv, nf = x[0], x[1]|f&ref.FC
	case kROT:
		x := t.rot[e.Arg][f&1][v]
		nv, nf = x[0], x[1]
	case kBIT:
		nf = ref.Bit(e.Arg, v, f)
		if e.Loc == lMemHL || e.Loc == lMemIX || e.Loc == lMemIY {
			mask = 0xff &^ (ref.F5 | ref.F3)
		}
	case kSET:
		nv = v | 1<<uint(e.Arg)
	case kRES:
		nv = v &^ (1 << uint(e.Arg))
	case kROTA:
		na, nf = ref.RotA(e.Arg, a, f)
	case kDAA:
		x := t.daa[int(f)<<8|int(a)]
		na, nf = x[0], x[1]
	case kCPL:
		na, nf = ref.Cpl(a, f)
	case kSCF:
		nf = ref.Scf(a, f)
		mask = 0xff &^ (ref.F5 | ref.F3)
	case kCCF:
		nf = ref.Ccf(a, f)
		mask = 0xff &^ (ref.F5 | ref.F3)
	case kNEG:
		na, nf = ref.Neg(a)
	case kRLD:
		na, nv, nf = ref.Rld(a, v, f)
	case kRRD:
		na, nv, nf = ref.Rrd(a, v, f)
	}
	// operand register A: the result register and the operand coincide
	if e.Loc == lA && e.Kind != kALU {
		na = nv
	}
	return
}

const c02PC = 0x0100
const c02Mem = 0x4000

// c02Run sweeps a in [a0,a1) x v in vs x f in fs for one encoding and
// displacement; returns evaluations; reports violations.
func c02Run(c *Ctx, t *c02Tables, mem *fastMem, e *aluEnc, base z80.States, d uint8, a0, a1 int, vs []uint8, fs []uint8) int64 {
	bs := append([]uint8{}, e.Bytes...)
	if e.DPos >= 0 {
		bs[e.DPos] = d
	}
	copy(mem.d[c02PC:], bs)
	pre := base
	pre.PC = c02PC
	sd := uint16(int16(int8(d)))
	switch e.Loc {
	case lMemHL:
		pre.HL.SetU16(c02Mem)
	case lMemIX:
		pre.IX = c02Mem - sd
	case lMemIY:
		pre.IY = c02Mem - sd
	}
	var n int64
	cpu := &z80.CPU{Memory: mem}
	memOp := e.Loc == lMemHL || e.Loc == lMemIX || e.Loc == lMemIY
	reported := 0
	for a := a0; a < a1; a++ {
		for _, v := range vs {
			if e.Loc == lA && v != uint8(a) {
				continue
			}
			for _, f := range fs {
				p := pre
				p.AF.Hi, p.AF.Lo = uint8(a), f
				switch e.Loc {
				case lB:
					p.BC.Hi = v
				case lC:
					p.BC.Lo = v
				case lD:
					p.DE.Hi = v
				case lE:
					p.DE.Lo = v
				case lH:
					p.HL.Hi = v
				case lL:
					p.HL.Lo = v
				case lIXH:
					p.IX = p.IX&0x00ff | uint16(v)<<8
				case lIXL:
					p.IX = p.IX&0xff00 | uint16(v)
				case lIYH:
					p.IY = p.IY&0x00ff | uint16(v)<<8
				case lIYL:
					p.IY = p.IY&0xff00 | uint16(v)
				case lMemHL, lMemIX, lMemIY:
					mem.d[c02Mem] = v
				case lImm:
					mem.d[c02PC+e.IPos] = v
				}
				cpu.States = p
				// every 8192nd Step starts with the halted indication still set from an earlier
				// program (a host that re-points the same CPU object and single-steps): the
				// instruction executes all the same
				staleHALT := n&0x1fff == 0x0555
				cpu.HALT = staleHALT
				mem.writes = 0
				if n&0xfff == 0x2aa {
					// continue on a by-value copy of the CPU struct; the abandoned struct is
					// scribbled over (a user may fork or return a CPU by value)
					old := cpu
					cpu = new(z80.CPU)
					*cpu = *old
					*old = z80.CPU{}
					old.States.AF.SetU16(0x5a5a)
					old.States.BC.SetU16(0x6b6b)
					old.States.DE.SetU16(0x7c7c)
					old.States.HL.SetU16(0x8d8d)
					old.States.IX, old.States.IY = 0xdead, 0xbeef
				}
				cpu.Step()
				n++
				na, nv, nf, mask := c02Spec(t, e, uint8(a), v, f)
				exp := p
				exp.AF.Hi = na
				exp.AF.Lo = nf
				exp.PC = c02PC + uint16(len(bs))
				switch e.Loc {
				case lB:
					exp.BC.Hi = nv
				case lC:
					exp.BC.Lo = nv
				case lD:
					exp.DE.Hi = nv
				case lE:
					exp.DE.Lo = nv
				case lH:
					exp.HL.Hi = nv
				case lL:
					exp.HL.Lo = nv
				case lIXH:
					exp.IX = exp.IX&0x00ff | uint16(nv)<<8
				case lIXL:
					exp.IX = exp.IX&0xff00 | uint16(nv)
				case lIYH:
					exp.IY = exp.IY&0x00ff | uint16(nv)<<8
				case lIYL:
					exp.IY = exp.IY&0xff00 | uint16(nv)
				}
				got := Arch(cpu.States)
				got.IR.Lo = exp.IR.Lo // R: C14
				got.AF.Lo = got.AF.Lo&mask | exp.AF.Lo&^mask
				if a == 0x7f && v == 0x01 && f == 0x01 && c.R.NSamples() < 10 && (e.Rep || e.DPos >= 0) {
					c.R.Sample(map[string]interface{}{"encoding": e.Name, "bytes": HexBytes(bs), "A": "7F", "operand": "01", "F_in": "01",
						"A_out": h8(cpu.States.AF.Hi), "F_out": h8(cpu.States.AF.Lo), "operand_out": h8(nv), "oracle_F": h8(nf), "f_mask": h8(mask)})
				}
				// the number and order of bus accesses is C05's subject, not this property's:
				// only the result, the flags, the operand's final value and the untouched
				// registers are judged here
				ok := got == exp && (!cpu.HALT || staleHALT)
				if ok && memOp {
					ok = mem.d[c02Mem] == nv
					if mem.rom {
						// result and flags come from the operation, not from what the cell holds afterwards
						ok = mem.d[c02Mem] == v && (nv == v && mem.writes == 0 || mem.writes > 0 && mem.romW == nv)
					}
				}
				if !ok {
					reported++
					if reported <= 3 {
						what := "result/flags"
						if got == exp {
							what = "memory operand"
						}
						c.R.Violation(fmt.Sprintf("C02/%s/%s", e.Name, what), map[string]interface{}{
							"encoding": e.Name, "bytes": HexBytes(bs), "A": h8(uint8(a)), "operand": h8(v), "F": h8(f), "d": h8(d),
							"want_A": h8(na), "want_F": h8(nf), "want_operand": h8(nv), "f_mask": h8(mask),
							"pre": DumpState(&p, false), "post": DumpState(&cpu.States, cpu.HALT),
							"mem_operand_after": h8(mem.d[c02Mem]), "writes": mem.writes, "operand_cell_keeps_no_write": mem.rom})
					} else if reported == 4 {
						c.R.Violation(fmt.Sprintf("C02/%s/more", e.Name), nil)
					}
				}
			}
		}
	}
	return n
}

// c02RunDirect: an indexed encoding on a 64 KiB z80.DumbMemory / z80.MapMemory handed to
// the CPU directly, with the operand at an address that makes IX+d / IY+d wrap past
// 0000/FFFF for many displacements.
func c02RunDirect(c *Ctx, t *c02Tables, e *aluEnc, base z80.States, mem z80.Memory, opAddr uint16, kindName string) int64 {
	var n int64
	bs := append([]uint8{}, e.Bytes...)
	reported := 0
	for dd := 0; dd < 256; dd++ {
		d := uint8(dd)
		bs[e.DPos] = d
		for k, b := range bs {
			mem.Set(c02PC+uint16(k), b)
		}
		pre := base
		pre.PC = c02PC
		sd := uint16(int16(int8(d)))
		if e.Loc == lMemIX {
			pre.IX = opAddr - sd
		} else {
			pre.IY = opAddr - sd
		}
		for _, a := range []uint8{0x00, 0x0f, 0x80, 0xff} {
			for _, v := range []uint8{0x00, 0x01, 0x7f, 0x80, 0xaa, 0xff} {
				for _, f := range []uint8{0x00, 0xff, 0x01} {
					p := pre
					p.AF.Hi, p.AF.Lo = a, f
					mem.Set(opAddr, v)
					cpu := z80.CPU{States: p, Memory: mem}
					cpu.Step()
					n++
					na, nv, nf, mask := c02Spec(t, e, a, v, f)
					got := cpu.States
					if got.AF.Hi != na || (got.AF.Lo^nf)&mask != 0 || mem.Get(opAddr) != nv || got.PC != c02PC+uint16(len(bs)) {
						reported++
						if reported <= 2 {
							c.R.Violation(fmt.Sprintf("C02/%s/on %s directly", e.Name, kindName), map[string]interface{}{
								"encoding": e.Name, "bytes": HexBytes(bs), "memory": kindName, "operand_address": h16(opAddr), "d": h8(d),
								"A": h8(a), "operand": h8(v), "F": h8(f), "want_A": h8(na), "want_F": h8(nf), "want_operand": h8(nv),
								"pre": DumpState(&p, false), "post": DumpState(&cpu.States, cpu.HALT), "operand_after": h8(mem.Get(opAddr))})
						}
					}
				}
			}
		}
	}
	return n
}

var c02F8 = []uint8{0x00, 0xff, 0x01, 0xfe, 0x10, 0x02, 0xd7, 0x28}

func allBytes() []uint8 {
	b := make([]uint8, 256)
	for i := range b {
		b[i] = uint8(i)
	}
	return b
}

func runC02(c *Ctx) {
	if !RequireOracle(c) {
		return
	}
	mon.DiscardStdLog()
	t := c02Tab()
	encs := c02Encodings()
	all := allBytes()
	thorough := c.Thorough()
	var mu sync.Mutex
	var evals, full, reduced, dsweep int64
	r0 := mon.NewRng(uint64(c.Seed) ^ 0xC02)
	bases := make([]z80.States, len(encs))
	for i := range bases {
		bases[i] = RandStates(r0)
		bases[i].SP = 0x8000
	}
	const chunks = 16
	Parallel(len(encs)*chunks, func(si int) {
		ei, ch := si/chunks, si%chunks
		e := &encs[ei]
		mem := &fastMem{}
		fs := all
		if !thorough && !e.Rep {
			fs = c02F8
		}
		a0, a1 := ch*256/chunks, (ch+1)*256/chunks
		d := uint8(0x01 + ei%5)
		if ei%3 == 0 {
			d = uint8(0xfb - ei%7) // negative displacement
		}
		n := c02Run(c, t, mem, e, bases[ei], d, a0, a1, all, fs)
		var nd int64
		if e.DPos >= 0 && ch == 0 {
			// all 256 displacements on a reduced value/flag set
			vs := []uint8{0x00, 0x01, 0x0f, 0x10, 0x7f, 0x80, 0xaa, 0xff}
			for dd := 0; dd < 256; dd++ {
				for _, a := range []int{0x00, 0x0f, 0x7f, 0x80, 0x99, 0xff} {
					nd += c02Run(c, t, mem, e, bases[ei], uint8(dd), a, a+1, vs, []uint8{0x00, 0xff, 0x01, 0xd6})
				}
			}
		}
		if (e.Loc == lMemHL || e.Loc == lMemIX || e.Loc == lMemIY) && ch == 2 {
			// the operand cell keeps no write (ROM / mapped register): A, flags and the
			// value offered to the bus are those of the operation all the same
			mem.rom = true
			vs := []uint8{0x00, 0x01, 0x0f, 0x10, 0x7f, 0x80, 0xaa, 0xfe, 0xff}
			for _, a := range []int{0x00, 0x0f, 0x7f, 0x80, 0x99, 0xff} {
				nd += c02Run(c, t, mem, e, bases[ei], d, a, a+1, vs, c02F8)
			}
			mem.rom = false
		}
		if e.DPos >= 0 && ch == 1 {
			// the same indexed encoding on the bundled memory types directly, effective
			// address wrapping past 0000 / FFFF
			dm := make(z80.DumbMemory, 65536)
			nd += c02RunDirect(c, t, e, bases[ei], dm, 0x0005, "DumbMemory")
			nd += c02RunDirect(c, t, e, bases[ei], dm, 0xfffa, "DumbMemory")
			if ei%4 == 0 {
				mm := z80.MapMemory{}
				nd += c02RunDirect(c, t, e, bases[ei], mm, 0x0003, "MapMemory")
			}
		}
		mu.Lock()
		evals += n + nd
		dsweep += nd
		if len(fs) == 256 {
			full += n
		} else {
			reduced += n
		}
		mu.Unlock()
	})
	nfull := 0
	for _, e := range encs {
		if thorough || e.Rep {
			nfull++
		}
	}
	c.R.Set("evaluations", evals)
	c.R.Set("distinct_nontrivial", evals)
	c.R.Set("encodings", int64(len(encs)))
	c.R.Set("encodings_with_complete_cube", int64(nfull))
	c.R.Set("steps_full_cube", full)
	c.R.Set("steps_reduced_F", reduced)
	c.R.Set("steps_displacement_sweep", dsweep)
	c.R.Set("exhaustive", thorough)
	if thorough {
		c.R.Set("rule", "the complete cube A(256) x operand(256) x incoming F(256) through the real CPU.Step for every one of the 559 encodings (degenerate A x F where the operand register is A), plus all 256 displacements on a reduced value set for the indexed forms (also on z80.DumbMemory / z80.MapMemory handed to the CPU directly with the operand at 0005 / FFFA so that IX+d wraps); a pass for the memory forms where the operand cell keeps no write (ROM); every 4096th Step continues on a by-value copy of the CPU struct, every 8192nd starts with the halted indication still set; oracle = pure functions from the reference model's ALU layer (definitional flags), masks for SCF/CCF and BIT on memory; whole States compared (so nothing else may change), memory operand's final value compared (the number of bus accesses is C05's subject). Every (encoding, A, operand, F, d) tuple is enumerated once, so distinct = evaluations by construction; all are non-trivial (each executes the operation under test)")
	} else {
		c.R.Set("rule", "complete cube A x operand x F for one representative encoding of each operation; for every other encoding all A x operand x 8 F values {00,FF,01,FE,10,02,D7,28}; all 256 displacements on a reduced value set for indexed forms (also on the bundled memory types directly, effective address wrapping); a pass for the memory forms where the operand cell keeps no write (ROM); every 4096th Step continues on a by-value copy of the CPU struct, every 8192nd starts with the halted indication still set; oracle and comparison as in the thorough tier. Every tuple is enumerated once, so distinct = evaluations by construction")
	}
	c.R.Assume("oracle functions ref.Alu8/Inc8/Dec8/Rot/Bit/Daa/... are validated against the hardware CRCs by the self-test of the model that shares them")
}
