package props

import (
	"bytes"
	"fmt"
	"os"
	"os/exec"
	"path/filepath"
	"sync"

	"github.com/koron-go/z80/verif/mon"
)

func init() {
	register("C19", "exploration", runC19)
}

var casSync = []byte{0x1f, 0xa6, 0xde, 0xba, 0xcc, 0x13, 0x7d, 0x74}

func le16(v int) []byte { return []byte{uint8(v), uint8(v >> 8)} }

// expected container layouts, written out from the property text
func expectBin(body []byte, off int) []byte {
	out := []byte{0xfe}
	out = append(out, le16(off)...)
	out = append(out, le16(off+len(body)-1)...)
	out = append(out, le16(off)...)
	return append(out, body...)
}

func expectCas(body []byte, off int, name []byte) []byte {
	out := append([]byte{}, casSync...)
	for i := 0; i < 10; i++ {
		out = append(out, 0xd0)
	}
	nm := []byte("      ")
	if len(name) > 6 {
		name = name[:6]
	}
	copy(nm, name)
	out = append(out, nm...)
	out = append(out, casSync...)
	out = append(out, le16(off)...)
	out = append(out, le16(off+len(body)-1)...)
	out = append(out, le16(off)...)
	return append(out, body...)
}

var c19Names = [][]byte{
	[]byte("A"), []byte("AB"), []byte("ZEXDOC"), []byte("ZEXDOC1"), []byte("LONGERNAME12"),
	[]byte("a b"), []byte(" lead"), []byte("trail "), []byte("caf\xc3\xa9"), []byte("\xb9\xde\xb0\xd1"),
	[]byte("\xe3\x81\x82\xe3\x81\x84"), []byte("\xff\xfe\x80"), []byte("x\x01y"), []byte("======"), []byte("-dash"),
	[]byte("tab\there"), []byte("\xc3\xa9\xc3\xa9\xc3\xa9\xc3\xa9"), []byte("12345\xc3\xa9"),
}

// C19 — cim2bin / cim2cas, the built binaries on generated inputs.
func runC19(c *Ctx) {
	bin := filepath.Join(c.Tmp, "cim2bin")
	cas := filepath.Join(c.Tmp, "cim2cas")
	for _, p := range []string{bin, cas} {
		if _, err := os.Stat(p); err != nil {
			c.R.Inconclusive("tool binary missing: " + p)
			return
		}
	}
	n := c.Pick(1500, 90000)
	var mu sync.Mutex
	var evals, preN, lookN, inplaceN, sameLenN int64
	distinct := mon.NewDistinct(1_000_000)
	lenClass := func(l int) int {
		switch {
		case l <= 2:
			return l
		case l < 256:
			return 3
		case l == 256:
			return 4
		case l < 65535:
			return 5
		}
		return 6
	}
	Parallel(2*n, func(si int) {
		tool := si % 2 // 0 bin 1 cas
		r := mon.NewRng(mon.Hash(uint64(c.Seed), uint64(si), 0xC19))
		dir := filepath.Join(c.Tmp, fmt.Sprintf("c19-%d", si))
		os.MkdirAll(dir, 0o755)
		defer os.RemoveAll(dir)
		// offset and length with end <= FFFF
		var off int
		switch r.Intn(6) {
		case 0:
			off = []int{0, 1, 0xa000, 0xffff, 0x8000, 0xff00, 0x00ff, 0x0100}[r.Intn(8)]
		case 1:
			off = 0x10000 - 1 - r.Intn(300)
		default:
			off = int(r.U16())
		}
		maxLen := 0x10000 - off
		var ln int
		switch r.Intn(6) {
		case 0:
			ln = []int{1, 2, 255, 256, 257}[r.Intn(5)]
		case 1, 2:
			ln = maxLen // last byte lands exactly on FFFF
		case 3:
			ln = maxLen - 1 - r.Intn(3)
		default:
			ln = 1 + r.Intn(2048)
		}
		if ln > maxLen {
			ln = maxLen
		}
		if ln < 1 {
			ln = 1
		}
		body := make([]byte, ln)
		lookalike := false
		for i := range body {
			body[i] = r.U8()
		}
		// images that themselves look like a container (raw code may start with FE = CP n;
		// a tool's own output may be fed back in)
		switch r.Intn(10) {
		case 0:
			if ln >= 7 {
				st := int(r.U16())
				if r.Bool() {
					st = off
				}
				en := st + ln - 7 - 1
				copy(body, []byte{0xfe, uint8(st), uint8(st >> 8), uint8(en), uint8(en >> 8), uint8(st), uint8(st >> 8)})
				lookalike = true
			}
		case 1:
			if ln >= 38 {
				copy(body, casSync)
				for i := 8; i < 18; i++ {
					body[i] = 0xd0
				}
				copy(body[18:], "NAME  ")
				copy(body[24:], casSync)
				en := off + ln - 38 - 1
				copy(body[32:], []byte{uint8(off), uint8(off >> 8), uint8(en), uint8(en >> 8), uint8(off), uint8(off >> 8)})
				lookalike = true
			}
		}
		// bytes that a text-mode transformation would mangle
		if ln >= 4 && !lookalike {
			copy(body[r.Intn(ln-3):], []byte{0x0d, 0x0a, 0x1a, 0x00})
		}
		if lookalike {
			mu.Lock()
			lookN++
			mu.Unlock()
		}
		// input file name (relative, cwd = dir): 1..12 chars
		fnLen := 1 + r.Intn(12)
		fn := make([]byte, fnLen)
		for i := range fn {
			fn[i] = "abcxyzABCXYZ019_-. "[r.Intn(19)]
		}
		if fn[0] == '-' || fn[0] == ' ' || fn[0] == '.' {
			fn[0] = 'q'
		}
		if fn[fnLen-1] == ' ' {
			fn[fnLen-1] = 'z'
		}
		in := string(fn)
		if err := os.WriteFile(filepath.Join(dir, in), body, 0o644); err != nil {
			return
		}
		offArg := fmt.Sprintf("%d", off)
		if r.Bool() {
			offArg = fmt.Sprintf("0x%X", off)
		}
		useDefaultOff := off == 0xa000 && r.Bool()
		var args []string
		var want []byte
		var nameUsed []byte
		outName := "out.dat"
		// converting in place: the output path is the input file itself, a symbolic
		// link to it, or a hard link to it (the image is what the file held when the
		// tool started)
		inplace := 0
		if r.Intn(8) == 0 {
			inplace = 1 + r.Intn(3)
			switch inplace {
			case 1:
				outName = in
			case 2:
				outName = "out.lnk"
				if os.Symlink(in, filepath.Join(dir, outName)) != nil {
					inplace, outName = 0, "out.dat"
				}
			case 3:
				outName = "out.hard"
				if os.Link(filepath.Join(dir, in), filepath.Join(dir, outName)) != nil {
					inplace, outName = 0, "out.dat"
				}
			}
		}
		if tool == 0 {
			args = []string{"-cim", in, "-bin", outName}
			want = expectBin(body, off)
		} else {
			args = []string{"-cim", in, "-cas", outName}
			switch r.Intn(4) {
			case 0: // default name = the -cim argument
				nameUsed = []byte(in)
			case 1:
				nameUsed = c19Names[r.Intn(len(c19Names))]
				args = append(args, "-nam", string(nameUsed))
			default:
				l := 1 + r.Intn(12)
				nameUsed = make([]byte, l)
				for i := range nameUsed {
					nameUsed[i] = r.U8()
					if nameUsed[i] == 0 {
						nameUsed[i] = 0x80
					}
				}
				args = append(args, "-nam", string(nameUsed))
			}
			want = expectCas(body, off, nameUsed)
		}
		if !useDefaultOff {
			args = append(args, "-off", offArg)
		}
		exe := bin
		if tool == 1 {
			exe = cas
		}
		// the output path may already hold an older (longer or shorter) file
		preexisting := r.Intn(3) == 0 && inplace == 0
		if inplace != 0 {
			mu.Lock()
			inplaceN++
			mu.Unlock()
		}
		if preexisting {
			old := make([]byte, len(want)+1+r.Intn(64))
			if r.Intn(3) == 0 {
				old = old[:r.Intn(len(want))]
			}
			for i := range old {
				old[i] = 0xee
			}
			if r.Intn(3) == 0 {
				// an older conversion of an image of the SAME length with another offset /
				// other contents, written after the input (so not older than it): the output
				// has the right size and a fresh time stamp, and is still stale
				old = append([]byte(nil), want...)
				for i := 1; i < len(old); i += 1 + r.Intn(7) {
					old[i] ^= 0x5a
				}
				mu.Lock()
				sameLenN++
				mu.Unlock()
			}
			os.WriteFile(filepath.Join(dir, outName), old, 0o644)
			mu.Lock()
			preN++
			mu.Unlock()
		}
		cmd := exec.Command(exe, args...)
		cmd.Dir = dir
		var stderr bytes.Buffer
		cmd.Stderr = &stderr
		err := cmd.Run()
		got, rerr := os.ReadFile(filepath.Join(dir, outName))
		mu.Lock()
		evals++
		mu.Unlock()
		distinct.Add(mon.Hash(uint64(tool), uint64(lenClass(ln)), uint64(off), uint64(len(nameUsed)), uint64(ln)))
		what := ""
		switch {
		case err != nil:
			what = "tool exited with an error: " + err.Error() + " " + stderr.String()
		case rerr != nil:
			what = "no output file"
		case !bytes.Equal(got, want):
			what = "output differs from the container layout"
			if len(got) >= len(want)-len(body) && len(got) == len(want) && !bytes.Equal(got[len(got)-len(body):], body) {
				what = "body altered"
			} else if len(got) != len(want) {
				what = fmt.Sprintf("output length %d, want %d", len(got), len(want))
			}
		}
		if what != "" {
			hd := got
			if len(hd) > 48 {
				hd = hd[:48]
			}
			wh := want
			if len(wh) > 48 {
				wh = wh[:48]
			}
			sigWhat := what
			if len(sigWhat) > 40 {
				sigWhat = sigWhat[:40]
			}
			c.R.Violation(fmt.Sprintf("C19/%s/%s", []string{"cim2bin", "cim2cas"}[tool], sigWhat), map[string]interface{}{
				"what": what, "args": args, "length": ln, "offset": fmt.Sprintf("%04X", off), "name_hex": fmt.Sprintf("%x", nameUsed),
				"got_head": HexBytes(hd), "want_head": HexBytes(wh)})
		}
		if si < 4 {
			hd := got
			if len(hd) > 40 {
				hd = hd[:40]
			}
			c.R.Sample(map[string]interface{}{"tool": []string{"cim2bin", "cim2cas"}[tool], "args": args, "length": ln, "out_head": HexBytes(hd)})
		}
	})
	c.R.Set("evaluations", evals)
	c.R.Set("runs_over_preexisting_output", preN)
	c.R.Set("runs_converting_in_place", inplaceN)
	c.R.Set("runs_over_a_stale_output_of_the_right_size", sameLenN)
	c.R.Set("images_that_look_like_a_container", lookN)
	c.R.Set("distinct_nontrivial", distinct.N())
	c.R.Set("exhaustive", false)
	c.R.Set("rule", "the built cmd/cim2bin and cmd/cim2cas binaries are run (cwd = scratch dir) on generated images: lengths {1,2,255,256,257, up to 2048, and the maximal length whose last byte lands exactly on FFFF (1/3 of cases) or just below} with arbitrary contents incl. CR LF ^Z NUL and, in 1/5 of cases, images that themselves start with a consistent BSAVE or CAS header (raw code may begin with FE; a tool's output may be fed back), offsets {0,1,00FF,0100,8000,A000 (explicit and default),FF00,FFFF, near FFFF, random} in decimal or 0x form, names of length 1..12 over all byte values incl. spaces, control bytes, valid multi-byte UTF-8 and invalid UTF-8, and the default name (the -cim argument, file names of 1..12 chars); in 1/3 of the runs the output path already holds an older longer/shorter file (or a stale one of exactly the right size, written after the input), in 1/8 the output path is the input file itself or a symbolic / hard link to it (conversion in place); output bytes compared with the layout written out from the property. Distinct = distinct (tool, length, offset, name length) tuples; every invocation is non-trivial")
	c.R.Assume("I/O error behaviour is outside the property; end address always fits in 16 bits")
}
