package props

import (
	"fmt"
	"sync"

	"github.com/koron-go/z80"
	"github.com/koron-go/z80/verif/mon"
	"github.com/koron-go/z80/verif/ref"
)

func init() {
	register("C14", "exploration", runC14)
}

// C14 — refresh register.  Single Steps: all 930 encodings x all 256 starting R
// x I in {00,7F,80,FF,random} x IFF2; oracle = direct rule (delta of the low 7
// bits = number of opcode fetches of the table, bit 7 and I unchanged except
// LD R,A / LD I,A) AND the reference model (value of R, and A/F of LD A,R /
// LD A,I).  Multi-Step: block repeats (+2 per repetition) and Steps on HALT
// (+1 each) across several 7F->00 wraps.
func runC14(c *Ctx) {
	if c.Replay != "" {
		replayStep(c, "C14")
		return
	}
	if !RequireOracle(c) {
		return
	}
	mon.DiscardStdLog()
	encs := InScopeEncodings()
	var mu sync.Mutex
	var evals, ldar, multi, multiSteps, wraps int64
	distinct := mon.NewDistinct(4_000_000)
	ivals := []int{0x00, 0x7f, 0x80, 0xff, -1}

	Parallel(len(encs), func(si int) {
		enc := encs[si]
		rig := rigPool.Get().(*StepRig)
		defer rigPool.Put(rig)
		r := mon.NewRng(mon.Hash(uint64(c.Seed), uint64(enc.Key()), 0xC14))
		rig.Refill(r.U64())
		var lev, lld, lwr int64
		k := 0
		for r0 := 0; r0 < 256; r0++ {
			for _, iv := range ivals {
				for iff2 := 0; iff2 < 2; iff2++ {
					k++
					sc := MakeStepCase(enc, r, k)
					sc.Pre.IR.Lo = uint8(r0)
					if iv >= 0 {
						sc.Pre.IR.Hi = uint8(iv)
					}
					sc.Pre.IFF2 = iff2 == 1
					// LD A,I / LD A,R are how a handler reads IFF2 while INT stays asserted:
					// half of their cases run with a refused maskable request pending
					if enc.Table == ref.TED && (enc.Op == 0x57 || enc.Op == 0x5f) && (r0+k)%2 == 0 {
						sc.PendingRefused = true
					}
					o := rig.Run(&sc)
					lev++
					// direct rule, independent of the model's own counting
					fetches := uint8(1)
					if enc.Table != ref.TMain {
						fetches = 2
					}
					isLDRA := enc.Table == ref.TED && enc.Op == 0x4f
					isLDIA := enc.Table == ref.TED && enc.Op == 0x47
					pre, post := sc.Pre.IR, o.Post.IR
					bad := ""
					if !isLDRA {
						d := (post.Lo - pre.Lo) & 0x7f
						okd := d == fetches
						if enc.Table == ref.TDDCB || enc.Table == ref.TFDCB {
							okd = d == 2 || d == 3
						}
						if !okd {
							bad = fmt.Sprintf("R low bits advanced by %d, want %d", d, fetches)
						}
						if post.Lo&0x80 != pre.Lo&0x80 {
							bad = "bit 7 of R changed"
						}
						if (pre.Lo&0x7f)+fetches > 0x7f {
							lwr++
						}
					} else if post.Lo != sc.Pre.AF.Hi {
						bad = "LD R,A did not load all 8 bits of A"
					}
					if !isLDIA && post.Hi != pre.Hi {
						bad = "I changed"
					}
					if isLDIA && post.Hi != sc.Pre.AF.Hi {
						bad = "LD I,A did not load A"
					}
					if enc.Table == ref.TED && (enc.Op == 0x57 || enc.Op == 0x5f) {
						lld++
						// value and flags of LD A,I / LD A,R: direct statement
						want := pre.Hi
						if enc.Op == 0x5f {
							want = pre.Lo&0x80 | (pre.Lo+2)&0x7f
						}
						f := o.Post.AF.Lo
						wf := sc.Pre.AF.Lo&ref.FC | want&(ref.FS|ref.F5|ref.F3)
						if want == 0 {
							wf |= ref.FZ
						}
						if sc.Pre.IFF2 {
							wf |= ref.FPV
						}
						if o.Post.AF.Hi != want || f != wf {
							bad = fmt.Sprintf("LD A,I/R: A=%02X F=%02X want A=%02X F=%02X", o.Post.AF.Hi, f, want, wf)
						}
						if o.Bad&BadState != 0 {
							bad = "LD A,I/R state differs from the reference model"
						}
					}
					if o.Bad&(BadR|BadPanic) != 0 && bad == "" {
						bad = "R differs from the reference model"
					}
					if bad != "" {
						w := rig.Witness(enc, &sc, &o)
						w["what"] = bad
						c.R.Violation(fmt.Sprintf("C14/%s/%s", enc.String(), bad), w)
					}
					distinct.Add(mon.Hash(uint64(enc.Key()), uint64(r0), uint64(sc.Pre.IR.Hi), uint64(iff2)))
					if si%131 == 0 && r0 == 0x7e && iv == 0x80 && iff2 == 1 {
						c.R.Sample(map[string]interface{}{"encoding": enc.String(), "bytes": HexBytes(sc.Bytes),
							"IR_before": h16(pre.U16()), "IR_after": h16(post.U16()), "IFF2": sc.Pre.IFF2, "F_after": h8(o.Post.AF.Lo)})
					}
				}
			}
		}
		mu.Lock()
		evals += lev
		ldar += lld
		wraps += lwr
		mu.Unlock()
	})

	// multi-Step programs
	nprog := c.Pick(200, 400000)
	Parallel(nprog, func(pi int) {
		r := mon.NewRng(mon.Hash(uint64(c.Seed), uint64(pi), 0xC14B))
		mem := &mon.Mem{}
		mem.Fill(r.U64())
		io := &mon.IO{Seed: r.U64()}
		var s z80.States
		s.IR.SetU16(r.U16())
		s.PC = 0x0100 + uint16(r.Intn(0x100))
		kind := r.Intn(6)
		n := 1 + r.Intn(300)
		var prog []uint8
		expPer := uint8(2)
		switch kind {
		case 0: // LDIR
			prog = []uint8{0xed, 0xb0}
			s.BC.SetU16(uint16(n))
			s.HL.SetU16(0x4000 + uint16(r.Intn(0x1000)))
			s.DE.SetU16(0x6000 + uint16(r.Intn(0x1000)))
		case 1: // LDDR
			prog = []uint8{0xed, 0xb8}
			s.BC.SetU16(uint16(n))
			s.HL.SetU16(0x5000 + uint16(r.Intn(0x1000)))
			s.DE.SetU16(0x7000 + uint16(r.Intn(0x1000)))
		case 2: // CPIR that never matches early: A differs from all bytes scanned
			prog = []uint8{0xed, 0xb1}
			s.BC.SetU16(uint16(n))
			s.HL.SetU16(0x4000)
			for i := 0; i < n; i++ {
				mem.Place(0x4000+uint16(i), 0x11)
			}
			s.AF.Hi = 0x22
		case 3: // OTIR
			prog = []uint8{0xed, 0xb3}
			n = 1 + n%256
			s.BC.Hi = uint8(n)
			s.HL.SetU16(0x4000)
		case 4: // INIR
			prog = []uint8{0xed, 0xb2}
			n = 1 + n%256
			s.BC.Hi = uint8(n)
			s.HL.SetU16(0x4000)
		case 5: // HALT
			prog = []uint8{0x76}
			expPer = 1
		}
		mem.Place(s.PC, prog...)
		cpu := z80.CPU{States: s, Memory: mem, IO: io}
		noDevice := (kind == 3 || kind == 4) && pi%2 == 1
		if noDevice {
			cpu.IO = nil // no device attached: the repetitions (and their fetches) are the same
		}
		r0 := s.IR.Lo
		var steps int64
		// in 1/4 of the repeating programs the host (a debugger, a loader) overwrites the
		// instruction with NOPs between two repetitions: from then on every Step is a NOP
		patchAt := -1
		if kind <= 2 && n >= 3 && pi%4 == 3 {
			patchAt = 1 + r.Intn(n-2)
		}
		for i := 0; i < n; i++ {
			if i == patchAt {
				mem.Place(s.PC, 0x00, 0x00)
				pcB, rB := cpu.PC, cpu.IR.Lo
				cpu.Step()
				steps++
				if cpu.PC != pcB+1 || cpu.IR.Lo != rB&0x80|(rB+1)&0x7f {
					c.R.Violation(fmt.Sprintf("C14/multi/kind%d/patched to NOP", kind), map[string]interface{}{
						"what":    "the host replaced a repeating block instruction by NOPs between two repetitions; the next Step must fetch and execute the NOP (R+1, PC+1)",
						"program": HexBytes(prog), "pre": DumpState(&s, false), "post": DumpState(&cpu.States, cpu.HALT), "patched_before_step": i + 1,
						"R_before": h8(rB), "PC_before": h16(pcB)})
				}
				break
			}
			cpu.Step()
			steps++
			want := r0&0x80 | (r0+uint8(i+1)*expPer)&0x7f
			if cpu.IR.Lo != want || cpu.IR.Hi != s.IR.Hi {
				c.R.Violation(fmt.Sprintf("C14/multi/kind%d", kind), map[string]interface{}{
					"program": HexBytes(prog), "pre": DumpState(&s, false), "step": i + 1, "no_io_device": noDevice,
					"R": h8(cpu.IR.Lo), "want_R": h8(want), "I": h8(cpu.IR.Hi)})
				break
			}
			if kind != 5 && i < n-1 && cpu.PC != s.PC {
				// The repeat ended early.  Whether it may is C09's business - unless the whole
				// operation was performed (counter run down to zero): then all its
				// repetitions happened and each of them counts as an opcode fetch.
				done := cpu.BC.U16() == 0
				if kind >= 3 {
					done = cpu.BC.Hi == 0
				}
				wantAll := r0&0x80 | (r0+uint8(n)*expPer)&0x7f
				if done && cpu.IR.Lo != wantAll {
					c.R.Violation(fmt.Sprintf("C14/multi/kind%d/all repetitions done, R counted fewer", kind), map[string]interface{}{
						"program": HexBytes(prog), "pre": DumpState(&s, false), "post": DumpState(&cpu.States, cpu.HALT), "steps_taken": i + 1, "repetitions": n,
						"no_io_device": noDevice, "R": h8(cpu.IR.Lo), "want_R": h8(wantAll)})
				}
				break
			}
		}
		mu.Lock()
		multi++
		multiSteps += steps
		mu.Unlock()
		distinct.Add(mon.Hash(uint64(kind), uint64(n), uint64(r0), 0xB10C))
		if pi < 3 {
			c.R.Sample(map[string]interface{}{"program": HexBytes(prog), "steps": n, "R_start": h8(r0), "R_end": h8(cpu.IR.Lo)})
		}
	})

	// chains of DD/FD prefixes in front of a one-byte opcode: however an implementation
	// splits them into Steps (this tree: two prefixes are swallowed as one unsupported
	// Step), every byte of the chain is fetched as an opcode byte exactly once, so by
	// the time PC has reached the end of the chain R has advanced by the chain's length
	var chainN int64
	{
		r := mon.NewRng(uint64(c.Seed) ^ 0xC14F)
		mem := &mon.Mem{}
		mem.Fill(r.U64())
		finals := []uint8{0x23, 0x2b, 0x09, 0x19, 0x29, 0x39, 0x00, 0x3c, 0x04} // no operands, no jumps
		for np := 1; np <= 6; np++ {
			for rep := 0; rep < c.Pick(200, 100000); rep++ {
				seq := make([]uint8, 0, np+1)
				for i := 0; i < np; i++ {
					seq = append(seq, []uint8{0xdd, 0xfd}[r.Intn(2)])
				}
				seq = append(seq, finals[r.Intn(len(finals))])
				pre := RandStates(r)
				if pre.PC > 0xfff0 {
					pre.PC = 0x4000
				}
				mem.Reset()
				mem.Place(pre.PC, seq...)
				mem.Place(pre.PC+uint16(len(seq)), 0x00, 0x00)
				cpu := z80.CPU{States: pre, Memory: mem}
				end := pre.PC + uint16(len(seq))
				steps := 0
				for cpu.PC != end && steps < len(seq)+1 && cpu.PC-pre.PC < uint16(len(seq)) {
					cpu.Step()
					steps++
				}
				chainN++
				if cpu.PC != end {
					continue // consumed differently (overshoot): no verdict here
				}
				d := (cpu.IR.Lo - pre.IR.Lo) & 0x7f
				if int(d) != len(seq)&0x7f || cpu.IR.Lo&0x80 != pre.IR.Lo&0x80 || cpu.IR.Hi != pre.IR.Hi {
					c.R.Violation("C14/prefix-chain", map[string]interface{}{
						"what":  fmt.Sprintf("a chain of %d DD/FD prefixes and a one-byte opcode was executed in %d Steps and R advanced by %d, want %d (one count per opcode byte fetched, none twice)", np, steps, d, len(seq)),
						"bytes": HexBytes(seq), "pre": DumpState(&pre, false), "post": DumpState(&cpu.States, cpu.HALT)})
					break
				}
				distinct.Add(mon.Hash(0xc4a1, uint64(np), uint64(rep)))
			}
		}
	}
	c.R.Set("prefix_chains", chainN)
	evals += chainN

	// fetches from the unpopulated part of a short z80.DumbMemory (reads 0 = NOP)
	// handed to the CPU directly count like any other opcode fetch
	var shortN int64
	{
		r := mon.NewRng(uint64(c.Seed) ^ 0xC14E)
		for _, L := range []int{0, 1, 2, 0x20, 0x4000, 0x8000, 0xffff} {
			dm := make(z80.DumbMemory, L)
			for i := range dm {
				dm[i] = 0 // NOPs below the border as well: only fetch counting is looked at
			}
			for r0 := 0; r0 < 256; r0++ {
				pre := RandStates(r)
				pre.IR.Lo = uint8(r0)
				switch r0 % 4 {
				case 0:
					pre.PC = uint16(L) + uint16(r.Intn(5)) - 2
				case 1:
					pre.PC = uint16(L)
				case 2:
					pre.PC = 0xffff - uint16(r.Intn(3))
				default:
					if L < 65535 {
						pre.PC = uint16(L + r.Intn(65536-L))
					}
				}
				cpu := z80.CPU{States: pre, Memory: dm}
				nst := 1 + r0%5
				for i := 0; i < nst; i++ {
					cpu.Step()
				}
				shortN++
				want := pre.IR.Lo&0x80 | (pre.IR.Lo+uint8(nst))&0x7f
				if cpu.IR.Lo != want || cpu.IR.Hi != pre.IR.Hi || cpu.PC != pre.PC+uint16(nst) {
					c.R.Violation("C14/short-DumbMemory/NOP fetches not counted", map[string]interface{}{
						"what":   "Steps over the zero bytes of a z80.DumbMemory (incl. the part behind its end) must count one fetch each",
						"length": L, "steps": nst, "pre": DumpState(&pre, false), "post": DumpState(&cpu.States, cpu.HALT), "want_R": h8(want)})
				}
				distinct.Add(mon.Hash(0x5407, uint64(L), uint64(r0)))
			}
		}
	}
	c.R.Set("steps_on_short_dumbmemory", shortN)
	evals += shortN

	// every opening of every table, implemented or not (an unimplemented one is consumed):
	// I and bit 7 of R may change only through ED 47 / ED 4F
	var allN int64
	{
		rig := NewStepRig(uint64(c.Seed) ^ 0xa11)
		r := mon.NewRng(uint64(c.Seed) ^ 0xC14D)
		inScope := inScopeKeys()
		for _, enc := range AllEncodings() {
			if inScope[enc.Key()] {
				continue // covered above, with the exact counting rule
			}
			if (enc.Table == ref.TDD || enc.Table == ref.TFD) && (enc.Op == 0xdd || enc.Op == 0xfd || enc.Op == 0xed) {
				// a prefix followed by another prefix: on silicon the last one wins, so
				// DD ED 4F is LD R,A — no verdict for prefix chains
				continue
			}
			for r0 := 0; r0 < 256; r0 += 3 {
				sc := MakeStepCase(enc, r, r0)
				sc.Pre.IR.Lo = uint8(r0)
				o := rig.Run(&sc)
				allN++
				pre, post := sc.Pre.IR, o.Post.IR
				d := (post.Lo - pre.Lo) & 0x7f
				if o.Bad&BadPanic != 0 {
					continue // C12
				}
				if post.Hi != pre.Hi || post.Lo&0x80 != pre.Lo&0x80 || d < 1 || d > 4 {
					c.R.Violation("C14/unimplemented-opening/"+enc.String(), map[string]interface{}{
						"what":  "an encoding other than LD I,A / LD R,A changed I or bit 7 of R, or moved the refresh counter by something that is not a fetch count",
						"bytes": HexBytes(sc.Bytes), "IR_before": h16(pre.U16()), "IR_after": h16(post.U16()), "A": h8(sc.Pre.AF.Hi)})
				}
			}
		}
	}
	c.R.Set("steps_on_unimplemented_openings", allN)
	evals += allN

	// interrupt acceptance: bit 7 of R and I may not change, and the low seven
	// bits advance by a small number of fetches (silicon: 1; this project: 0 for
	// NMI/mode 1/mode 2, 1 for the instruction executed in mode 0) — 0..2 accepted
	var accN int64
	{
		r := mon.NewRng(uint64(c.Seed) ^ 0xC14C)
		mem := &mon.Mem{}
		mem.Fill(r.U64())
		for r0 := 0; r0 < 256; r0++ {
			for kind := 0; kind < 5; kind++ {
				for rep := 0; rep < 8; rep++ {
					pre := RandStates(r)
					pre.IR.Lo = uint8(r0)
					pre.IFF1 = true
					var it *z80.Interrupt
					switch kind {
					case 0:
						it = z80.NMIInterrupt()
					case 1:
						pre.IM = 1
						it = z80.IM1Interrupt()
					case 2:
						pre.IM = 2
						it = z80.IM2Interrupt(r.U8())
					case 3:
						pre.IM = 0
						it = z80.IM0Interrupt(uint8(0xc7 | r.Intn(8)<<3))
					case 4:
						pre.IM = 0
						t := r.U16()
						it = z80.IM0Interrupt(0xcd, uint8(t), uint8(t>>8))
					}
					mem.Reset()
					cpu := z80.CPU{States: pre, Memory: mem, Interrupt: it}
					cpu.Step()
					accN++
					d := (cpu.IR.Lo - pre.IR.Lo) & 0x7f
					if cpu.Interrupt != nil {
						continue // not accepted: not this part's business
					}
					// mode 0 executes the supplied instruction: that is an opcode fetch, so the
					// counter must move (1, or 2 with a separate acknowledge count)
					if cpu.IR.Lo&0x80 != pre.IR.Lo&0x80 || cpu.IR.Hi != pre.IR.Hi || d > 2 || (kind >= 3 && d == 0) {
						c.R.Violation(fmt.Sprintf("C14/acceptance/kind%d", kind), map[string]interface{}{
							"what": "interrupt acceptance changed bit 7 of R or I, moved the refresh counter by more than two fetches, or executed a mode-0 instruction without counting its opcode fetch",
							"pre":  DumpState(&pre, false), "post": DumpState(&cpu.States, cpu.HALT), "request_data": HexBytes(it.Data), "nmi": kind == 0})
					}
					distinct.Add(mon.Hash(0xacc, uint64(r0), uint64(kind), uint64(rep)))
				}
			}
		}
	}
	// mode 0 with a PREFIXED instruction supplied by the device: each of its opcode bytes is
	// an opcode fetch like any other (2, or 2..3 for DDCB/FDCB), plus at most one count for
	// the acknowledge cycle itself; bit 7 and I untouched
	{
		r := mon.NewRng(uint64(c.Seed) ^ 0xC14A)
		mem := &mon.Mem{}
		mem.Fill(r.U64())
		supplied := [][]uint8{{0xed, 0x44}, {0xcb, 0x07}, {0xcb, 0x47}, {0xdd, 0x23}, {0xfd, 0x2b}, {0xdd, 0x24}, {0xed, 0x6f}, {0xdd, 0xcb, 0x01, 0x06}, {0xfd, 0xcb, 0xff, 0x46}}
	prefixed:
		for r0 := 0; r0 < 256; r0++ {
			for _, ins := range supplied {
				pre := RandStates(r)
				pre.IR.Lo = uint8(r0)
				pre.IM, pre.IFF1 = 0, true
				pre.HL.SetU16(0x4000)
				pre.IX, pre.IY = 0x5000, 0x6000
				mem.Reset()
				cpu := z80.CPU{States: pre, Memory: mem, Interrupt: z80.IM0Interrupt(ins[0], ins[1:]...)}
				cpu.Step()
				accN++
				if cpu.Interrupt != nil {
					continue
				}
				d := (cpu.IR.Lo - pre.IR.Lo) & 0x7f
				lo, hi := uint8(2), uint8(3)
				if len(ins) == 4 {
					hi = 4
				}
				if cpu.IR.Lo&0x80 != pre.IR.Lo&0x80 || cpu.IR.Hi != pre.IR.Hi || d < lo || d > hi {
					c.R.Violation("C14/acceptance/mode0-prefixed", map[string]interface{}{
						"what":                 fmt.Sprintf("a mode-0 device supplied a prefixed instruction: R advanced by %d, want %d..%d opcode fetches (and bit 7 / I untouched)", d, lo, hi),
						"supplied_instruction": HexBytes(ins), "pre": DumpState(&pre, false), "post": DumpState(&cpu.States, cpu.HALT)})
					break prefixed
				}
			}
		}
	}
	c.R.Set("acceptance_steps", accN)
	evals += accN

	c.R.Set("evaluations", evals+multi)
	c.R.Set("single_steps", evals)
	c.R.Set("distinct_nontrivial", distinct.N())
	c.R.Set("ld_a_ir_cases", ldar)
	c.R.Set("wraps_7f_to_00", wraps)
	c.R.Set("multi_step_programs", multi)
	c.R.Set("multi_step_steps", multiSteps)
	c.R.Set("encodings_covered", int64(len(encs)))
	c.R.Set("exhaustive", false)
	c.R.Set("exhaustive_over", "(encoding, starting R) pairs: 930 x 256, each with 5 I values x 2 IFF2 values; other registers sampled")
	c.R.Set("rule", "all 930 implemented encodings x all 256 starting R x I in {00,7F,80,FF,random} x IFF2 in {0,1}: delta of R's low 7 bits = opcode fetches of the decode table (1 unprefixed, 2 prefixed, 2 or 3 DDCB/FDCB), bit 7 and I unchanged except by LD R,A / LD I,A, LD A,R / LD A,I value and flags by direct formula, plus equality with the reference model's R; then all 856 openings outside the implemented set x 86 starting R (I and bit 7 of R unchanged, counter moved by 1..4); then interrupt acceptance (NMI, mode 0 RST/CALL, mode 1, mode 2; all 256 starting R x 8 states each): bit 7 of R and I unchanged, counter moved by 0..2; then chains of 1..6 DD/FD prefixes before a one-byte opcode (R advanced by the chain's length once PC is behind it, however the chain is split into Steps); then NOP fetches on short z80.DumbMemory slices (length 0..FFFFh) handed over directly, PC at/behind the end; then multi-Step programs (LDIR/LDDR/CPIR/OTIR/INIR with 1..300 repetitions - half of the I/O ones with no device attached -, 1..300 Steps on HALT) from random R. Every case changes R, so every case is non-trivial; distinct = distinct (encoding, R, I, IFF2) tuples + distinct (kind, length, R) programs")
	c.R.Assume("across interrupt acceptance only bit 7 of R, I and a bound of 0..2 fetches are checked (chips and emulators differ on the exact count)")
}
