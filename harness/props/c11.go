package props

import (
	"fmt"
	"sync"

	"github.com/koron-go/z80"
	"github.com/koron-go/z80/verif/mon"
)

func init() {
	register("C11", "exploration", runC11)
}

func swapIdx(s z80.States) z80.States {
	s.IX, s.IY = s.IY, s.IX
	return s
}

type pairRig struct {
	memA, memB mon.Mem
	ioA, ioB   mon.IO
}

func (g *pairRig) refill(seed uint64) {
	g.memA.Fill(seed)
	g.memB.Fill(seed)
	g.memA.Logging = true
	g.memB.Logging = true
}

// run one Step on side A or B
func stepOn(mem *mon.Mem, io *mon.IO, pre z80.States, bytes []uint8, ioSeed uint64) (post z80.States, halt bool, pan interface{}) {
	mem.Reset()
	mem.Place(pre.PC, bytes...)
	io.Reset(ioSeed)
	cpu := z80.CPU{States: pre, Memory: mem, IO: io}
	func() {
		defer func() {
			if p := recover(); p != nil {
				pan = p
			}
		}()
		cpu.Step()
	}()
	return cpu.States, cpu.HALT, pan
}

// stepOnW is stepOn with two extras: a bus hook that looks at the OTHER index
// register at every memory access of the Step (watch 1: IY during a DD form,
// 2: IX during an FD form; it must hold its pre-value throughout, "neither form
// ever reads or writes the other index register"), and optionally the
// instruction supplied by a mode-0 device instead of being fetched from memory.
func stepOnW(mem *mon.Mem, io *mon.IO, pre z80.States, bytes []uint8, ioSeed uint64, watch int, viaIM0 bool) (post z80.States, halt bool, pan interface{}, touched bool) {
	mem.Reset()
	io.Reset(ioSeed)
	cpu := z80.CPU{States: pre, Memory: mem, IO: io}
	if viaIM0 {
		cpu.Interrupt = &z80.Interrupt{Type: z80.IMType, Data: append([]uint8(nil), bytes...)}
	} else {
		mem.Place(pre.PC, bytes...)
	}
	if watch != 0 {
		mem.Hook = func(m *mon.Mem, a mon.Access) {
			if watch == 1 && cpu.IY != pre.IY || watch == 2 && cpu.IX != pre.IX {
				touched = true
			}
		}
		defer func() { mem.Hook = nil }()
	}
	func() {
		defer func() {
			if p := recover(); p != nil {
				pan = p
			}
		}()
		cpu.Step()
	}()
	return cpu.States, cpu.HALT, pan, touched
}

// cowMem is a copy-on-write view of a frozen image: the first write makes a private
// copy, attaches THAT to the CPU (from inside Set, as a snapshotting host does) and
// lands there; the frozen object must not be written again.
type cowMem struct {
	base   *mon.Mem
	over   map[uint16]uint8
	cpu    *z80.CPU
	frozen bool
	child  *cowMem
	stale  int // writes that still arrived at the frozen object after the switch
}

func (m *cowMem) Get(a uint16) uint8 {
	if v, ok := m.over[a]; ok {
		return v
	}
	return m.base.Data[a]
}

func (m *cowMem) Set(a uint16, v uint8) {
	if m.frozen {
		if m.child == nil {
			m.child = &cowMem{base: m.base, over: map[uint16]uint8{}, cpu: m.cpu}
			m.cpu.Memory = m.child
		} else {
			m.stale++
		}
		m.child.over[a] = v
		return
	}
	m.over[a] = v
}

// stepCOW runs one Step on a frozen copy-on-write image of mem (which already holds the
// instruction bytes) and returns the post-state and where the writes went.
func stepCOW(mem *mon.Mem, pre z80.States, ioSeed uint64) (post z80.States, over map[uint16]uint8, stale int, pan interface{}) {
	cpu := &z80.CPU{States: pre, IO: &mon.IO{Seed: ioSeed}}
	root := &cowMem{base: mem, cpu: cpu, frozen: true}
	cpu.Memory = root
	func() {
		defer func() { pan = recover() }()
		cpu.Step()
	}()
	if root.child != nil {
		over = root.child.over
	}
	return cpu.States, over, root.stale, pan
}

func memImagesEqual(a, b *mon.Mem, except uint16, hasExcept bool) bool {
	for _, ad := range a.Dirty(0) {
		if hasExcept && ad == except {
			continue
		}
		if a.Data[ad] != b.Data[ad] {
			return false
		}
	}
	for _, ad := range b.Dirty(0) {
		if hasExcept && ad == except {
			continue
		}
		if a.Data[ad] != b.Data[ad] {
			return false
		}
	}
	return true
}

// C11 — FD/IY mirrors DD/IX.  Metamorphic, no model.
func runC11(c *Ctx) {
	mon.DiscardStdLog()
	n := c.Pick(1000, 100000)
	var mu sync.Mutex
	var evals, nontriv, touching, nonInterf, aliased, directPairs, im0Pairs, cowPairs int64
	distinct := mon.NewDistinct(4_000_000)

	// warning parity (single-threaded log monitor)
	warned, wsteps := WarnScan(uint64(c.Seed)^0xC11, 3)
	parityChecked := 0
	for op := 0; op < 256; op++ {
		if op != 0xcb {
			parityChecked++
			if warned[3<<8|op] != warned[4<<8|op] {
				c.R.Violation(fmt.Sprintf("C11/warn-parity/DD-FD %02X", op), map[string]interface{}{
					"op": op, "dd_warns": warned[3<<8|op], "fd_warns": warned[4<<8|op]})
			}
		}
		parityChecked++
		if warned[5<<8|op] != warned[6<<8|op] {
			c.R.Violation(fmt.Sprintf("C11/warn-parity/DDCB-FDCB %02X", op), map[string]interface{}{
				"op": op, "ddcb_warns": warned[5<<8|op], "fdcb_warns": warned[6<<8|op]})
		}
	}
	c.R.Set("warn_parity_pairs_checked", int64(parityChecked))
	c.R.Set("warn_scan_steps", int64(wsteps))

	// 512 shards: (table, op)
	Parallel(512, func(si int) {
		cb := si >= 256
		op := uint8(si)
		if !cb && op == 0xcb {
			return
		}
		g := &pairRig{}
		r := mon.NewRng(mon.Hash(uint64(c.Seed), uint64(si), 0xC11))
		g.refill(r.U64())
		var lev, lnt, ltouch, lni, lalias, ldirect, lim0, lcow int64
		var dmem z80.DumbMemory
		for k := 0; k < n; k++ {
			if k&1023 == 1023 {
				g.refill(r.U64())
			}
			pre := RandStates(r)
			pre.AF.Lo = uint8(k)
			d := uint8(k>>8) ^ uint8(k*37)
			switch k & 15 {
			case 1:
				d = 0x7f
			case 2:
				d = 0x80
			case 3:
				d = 0xff
			}
			// IX/IY edges so that IX+d wraps
			switch r.Intn(6) {
			case 0:
				pre.IX = 0xff80 + uint16(r.Intn(0x100))
			case 1:
				pre.IY = 0xff80 + uint16(r.Intn(0x100))
			}
			var dd, fd []uint8
			if cb {
				dd = []uint8{0xdd, 0xcb, d, op}
				fd = []uint8{0xfd, 0xcb, d, op}
			} else {
				o1, o2 := r.U8(), r.U8()
				dd = []uint8{0xdd, op, d, o1, o2}
				fd = []uint8{0xfd, op, d, o1, o2}
			}
			ioSeed := r.U64()
			postD, haltD, panD, touchD := stepOnW(&g.memA, &g.ioA, pre, dd, ioSeed, 1, false)
			logD := append([]mon.Access(nil), g.memA.Log...)
			portD := append([]mon.Access(nil), g.ioA.Log...)
			postF, haltF, panF, touchF := stepOnW(&g.memB, &g.ioB, swapIdx(pre), fd, ioSeed, 2, false)
			lev++
			bad := ""
			// If the instruction reads the prefix byte's own address as data
			// (operand aliasing PC) the two forms legitimately see DD vs FD:
			// the mirror law does not apply to that case.
			alias := false
			for i, a := range logD {
				if i > 0 && a.Kind == 'R' && a.Addr == pre.PC {
					alias = true
				}
			}
			for i, a := range g.memB.Log {
				if i > 0 && a.Kind == 'R' && a.Addr == pre.PC {
					alias = true
				}
			}
			if alias {
				lalias++
				continue
			}
			switch {
			case touchD:
				bad = "IY did not hold its value at every bus access of the DD form (the other index register is written temporarily)"
			case touchF:
				bad = "IX did not hold its value at every bus access of the FD form (the other index register is written temporarily)"
			case panD != nil || panF != nil:
				if (panD == nil) != (panF == nil) {
					bad = "only one form panics"
				}
			case swapIdx(postF) != postD || haltD != haltF:
				bad = "post-states differ after un-mirroring"
			case !mon.EqualSeq(portD, g.ioB.Log):
				bad = "port access sequences differ"
			case len(logD) != len(g.memB.Log):
				bad = "memory access sequences differ in length"
			default:
				for i := range logD {
					a, b := logD[i], g.memB.Log[i]
					if i == 0 && a.Kind == 'R' && b.Kind == 'R' && a.Addr == b.Addr && a.Val == 0xdd && b.Val == 0xfd {
						continue
					}
					if a != b {
						// a later re-read of the prefix byte's address may
						// legitimately see DD vs FD
						if a.Kind == b.Kind && a.Addr == b.Addr && a.Addr == pre.PC && a.Kind == 'R' && a.Val == 0xdd && b.Val == 0xfd {
							continue
						}
						bad = fmt.Sprintf("memory access %d differs: %c %04X=%02X vs %c %04X=%02X", i, a.Kind, a.Addr, a.Val, b.Kind, b.Addr, b.Val)
						break
					}
				}
				if bad == "" && !memImagesEqual(&g.memA, &g.memB, pre.PC, true) {
					bad = "memory images differ"
				}
			}
			usesIdx := postD.IX != pre.IX || len(logD) > 2 && !cb || cb
			if usesIdx {
				ltouch++
			}
			// non-interference: the DD form with another IY, the FD form with another IX
			if bad == "" && panD == nil {
				alt := pre
				alt.IY = pre.IY ^ (1 << uint(r.Intn(16))) ^ uint16(r.Intn(4))
				if alt.IY == pre.IY {
					alt.IY++
				}
				postD2, haltD2, _ := stepOn(&g.memB, &g.ioB, alt, dd, ioSeed)
				lni++
				if postD2.IY != alt.IY || postD.IY != pre.IY {
					bad = "DD form changed IY"
				} else {
					postD2.IY = postD.IY
					if postD2 != postD || haltD2 != haltD || !mon.EqualSeq(logD, g.memB.Log) || !mon.EqualSeq(portD, g.ioB.Log) {
						bad = "DD form depends on IY"
					}
				}
				if bad == "" {
					spre := swapIdx(pre)
					alt := spre
					alt.IX = spre.IX ^ (1 << uint(r.Intn(16)))
					postF2, _, _ := stepOn(&g.memA, &g.ioA, alt, fd, ioSeed)
					lni++
					if postF2.IX != alt.IX || postF.IX != spre.IX {
						bad = "FD form changed IX"
					} else {
						postF2.IX = postF.IX
						if postF2 != postF {
							bad = "FD form depends on IX"
						}
					}
				}
			}
			// every 8th pair again on a 64 KiB z80.DumbMemory handed to the CPU directly: the
			// mirror law must hold there too (a type-specific fast path in one table only)
			if bad == "" && panD == nil && k%8 == 1 {
				if dmem == nil {
					dmem = make(z80.DumbMemory, 65536)
				}
				g.memA.Reset()
				copy(dmem, g.memA.Data[:])
				for i, b := range dd {
					dmem[pre.PC+uint16(i)] = b
				}
				cd := z80.CPU{States: pre, Memory: dmem, IO: &mon.IO{Seed: ioSeed}}
				var pd interface{}
				func() {
					defer func() { pd = recover() }()
					cd.Step()
				}()
				imgD := append([]uint8(nil), dmem...)
				copy(dmem, g.memA.Data[:])
				for i, b := range fd {
					dmem[pre.PC+uint16(i)] = b
				}
				cf := z80.CPU{States: swapIdx(pre), Memory: dmem, IO: &mon.IO{Seed: ioSeed}}
				var pf interface{}
				func() {
					defer func() { pf = recover() }()
					cf.Step()
				}()
				ldirect++
				switch {
				case (pd == nil) != (pf == nil):
					bad = "only one form panics on DumbMemory handed over directly"
				case pd == nil && (swapIdx(cf.States) != cd.States || cf.HALT != cd.HALT):
					bad = "post-states differ after un-mirroring on DumbMemory handed over directly"
				case pd == nil:
					for a := 0; a < 65536; a++ {
						if imgD[a] != dmem[a] && uint16(a) != pre.PC {
							bad = "memory images differ on DumbMemory handed over directly"
							break
						}
					}
				}
			}
			// every 8th pair again with the instruction supplied by a mode-0 device instead of
			// being fetched: the two forms must still mirror each other, refresh count
			// included.  Only for plain (non-jumping) instructions whose data accesses stay
			// clear of the bytes at PC (which the device's bytes overlay).
			if bad == "" && panD == nil && k%8 == 5 {
				ilen := int(postD.PC - pre.PC)
				inWin := 0
				plain := ilen >= 2 && ilen <= 5
				for i, a := range logD {
					if a.Addr-pre.PC < 6 || pre.PC-a.Addr < 2 {
						inWin++
						if i >= ilen || a.Kind != 'R' || a.Addr != pre.PC+uint16(i) {
							plain = false
						}
					}
				}
				if plain && inWin == ilen {
					pi := pre
					pi.IM, pi.IFF1 = 0, true
					pD, hD, xD, _ := stepOnW(&g.memA, &g.ioA, pi, dd[:ilen], ioSeed, 0, true)
					lD := append([]mon.Access(nil), g.memA.Log...)
					poD := append([]mon.Access(nil), g.ioA.Log...)
					pF, hF, xF, _ := stepOnW(&g.memB, &g.ioB, swapIdx(pi), fd[:ilen], ioSeed, 0, true)
					lim0++
					ranFirst := len(lD) > 0 && lD[0].Kind == 'R' && lD[0].Addr == pre.PC ||
						len(g.memB.Log) > 0 && g.memB.Log[0].Kind == 'R' && g.memB.Log[0].Addr == pre.PC
					switch {
					case ranFirst:
						// the Step began with the program's own instruction (requests sampled at the end
						// of an instruction: C06's subject); the two sides then run different programs
						lim0--
					case (xD == nil) != (xF == nil):
						bad = "only one form panics when supplied by a mode-0 device"
					case xD != nil:
					case swapIdx(pF) != pD || hD != hF:
						bad = "post-states differ after un-mirroring when the instruction is supplied by a mode-0 device"
						postD, postF, haltD, haltF = pD, pF, hD, hF
					case !mon.EqualSeq(lD, g.memB.Log) || !mon.EqualSeq(poD, g.ioB.Log):
						bad = "access sequences differ when the instruction is supplied by a mode-0 device"
					case !memImagesEqual(&g.memA, &g.memB, 0, false):
						bad = "memory images differ when the instruction is supplied by a mode-0 device"
					}
				}
			}
			// another 8th on a frozen copy-on-write image: the first write of the Step makes
			// the host attach a private copy to CPU.Memory from inside Set; every later write
			// of the same instruction must land in the copy, for both forms alike
			if bad == "" && panD == nil && k%8 == 3 {
				g.memA.Reset()
				g.memA.Place(pre.PC, dd...)
				pD, oD, sD, xD := stepCOW(&g.memA, pre, ioSeed)
				g.memB.Reset()
				g.memB.Place(pre.PC, fd...)
				pF, oF, sF, xF := stepCOW(&g.memB, swapIdx(pre), ioSeed)
				lcow++
				switch {
				case (xD == nil) != (xF == nil):
					bad = "only one form panics on a copy-on-write memory"
				case xD != nil:
				case swapIdx(pF) != pD:
					bad = "post-states differ after un-mirroring on a copy-on-write memory"
				case sD != sF || len(oD) != len(oF):
					bad = fmt.Sprintf("on a copy-on-write memory (the host attaches a private copy to CPU.Memory during the first write) the DD form sent %d later write(s) to the frozen object and the FD form %d", sD, sF)
				default:
					for a, v := range oD {
						if oF[a] != v {
							bad = "written images differ on a copy-on-write memory"
						}
					}
				}
			}
			if postD != pre || len(logD) > 2 {
				lnt++
				if k < 2048 || k%5 == 0 {
					distinct.Add(mon.Hash(uint64(si), uint64(d), uint64(k), uint64(pre.IX)<<16|uint64(pre.IY)))
				}
			}
			if bad != "" {
				name := fmt.Sprintf("DD/FD %02X", op)
				if cb {
					name = fmt.Sprintf("DDCB/FDCB %02X", op)
				}
				sig := "C11/" + name + "/" + bad
				if len(bad) > 22 && bad[:22] == "memory access sequence" || len(bad) > 13 && bad[:13] == "memory access" {
					sig = "C11/" + name + "/memory access sequences differ"
				}
				c.R.Violation(sig, map[string]interface{}{
					"what": bad, "dd_bytes": HexBytes(dd), "fd_bytes": HexBytes(fd),
					"pre_dd": DumpState(&pre, false), "post_dd": DumpState(&postD, haltD), "post_fd": DumpState(&postF, haltF),
					"dd_bus": DumpAccesses(logD), "fd_bus": DumpAccesses(g.memB.Log), "io_seed": ioSeed})
			}
			if k == 7 && si%61 == 0 {
				c.R.Sample(map[string]interface{}{"dd_bytes": HexBytes(dd), "fd_bytes": HexBytes(fd),
					"pre_dd": DumpState(&pre, false), "post_dd": DumpState(&postD, haltD), "dd_bus": DumpAccesses(logD)})
			}
		}
		mu.Lock()
		evals += lev
		nontriv += lnt
		touching += ltouch
		nonInterf += lni
		aliased += lalias
		directPairs += ldirect
		im0Pairs += lim0
		cowPairs += lcow
		mu.Unlock()
	})
	c.R.Set("evaluations", evals)
	c.R.Set("pairs_of_steps", evals)
	c.R.Set("nontrivial_pairs", nontriv)
	c.R.Set("distinct_nontrivial", distinct.N())
	c.R.Set("non_interference_reruns", nonInterf)
	c.R.Set("pairs_also_on_DumbMemory_directly", directPairs)
	c.R.Set("pairs_also_supplied_by_a_mode0_device", im0Pairs)
	c.R.Set("pairs_also_on_a_copy_on_write_memory", cowPairs)
	c.R.Set("skipped_operand_aliases_prefix_byte", aliased)
	c.R.Set("pairs_using_index_register", touching)
	c.R.Set("second_bytes_covered", int64(255))
	c.R.Set("fourth_bytes_covered", int64(256))
	c.R.Set("states_per_byte", int64(n))
	c.R.Set("exhaustive", false)
	c.R.Set("exhaustive_over", "all 255 second bytes after DD/FD (CB handled via the 256 fourth bytes of DDCB/FDCB); pre-states sampled")
	c.R.Set("rule", "for every second byte after DD/FD and every fourth byte after DDCB/FDCB (in scope or not), n boundary-biased states S with all 256 F and displacements cycled: Step the DD form from S and the FD form from swap(S) on identical memories/devices; swap(post_FD) must equal post_DD, HALT equal, memory access sequence equal address-for-address and value-for-value except the prefix byte's own value, port sequence equal, written images equal; then re-run each form with the other index register perturbed: nothing but that register may differ and it must stay unchanged; 'invalid code' warnings must agree pairwise; every 8th pair is repeated on a 64 KiB z80.DumbMemory handed to the CPU directly, another 8th with both forms supplied by a mode-0 interrupting device (whole post-state incl. R, access sequences, images), another 8th on a copy-on-write image whose first write attaches a private copy to CPU.Memory from inside Set (post-states, where the writes went); a bus hook checks at every memory access of the Step that the other index register still holds its value. Non-trivial = the Step changed a register other than none (post != pre) or made a data access; distinct = distinct (byte, d, case, IX, IY) hashes (first 2048 per byte then 1/5 sampled: a lower bound)")
	c.R.Assume("no reference model involved: a defect that is mirrored identically in both tables is C01's business")
}
