package props

import (
	"fmt"

	"github.com/koron-go/z80"
	"github.com/koron-go/z80/verif/mon"
	"github.com/koron-go/z80/verif/ref"
)

// StepRig runs one emulator Step and one reference-model Step from the same
// pre-state on identical buses and compares everything observable.
type StepRig struct {
	EmuMem, RefMem mon.Mem
	EmuIO, RefIO   mon.IO
	CPU            *z80.CPU
	RC             mon.RetCounter
	Ref            ref.CPU
	fillSeed       uint64
	NilIO          bool
	Chained        bool // keep the CPU object across cases (see Run)
	chainLive      bool

	// Direct: additionally run the case on z80.DumbMemory (64 KiB) or a fully
	// populated z80.MapMemory holding the same bytes, handed to the CPU without
	// a monitor in between (type-specific fast paths become reachable)
	Direct     int // 0 off, 1 DumbMemory, 2 MapMemory
	dm         z80.DumbMemory
	mm         z80.MapMemory
	dTouched   [3][]uint16 // per mirror: addresses that may differ from the base image
	DirectPost z80.States
	DirectNote string
	lastDirect int

	// Limit != 0: the machine keeps no write at addresses >= Limit.  With
	// LimitZero the space above reads 0 as well (exactly a z80.DumbMemory of
	// length Limit, which Direct == 1 then uses); without it it holds bytes (ROM).
	Limit     uint32
	LimitZero bool
}

// SetLimit configures the unpopulated / read-only upper part of the address
// space (0 switches it off) and rebuilds the base image.
func (g *StepRig) SetLimit(limit uint32, zero bool) {
	g.Limit, g.LimitZero = limit, zero
	g.EmuMem.ROFrom, g.RefMem.ROFrom = limit, limit
	g.Refill(g.fillSeed)
}

// BreakChain makes the next Run start with a fresh CPU object.
func (g *StepRig) BreakChain() { g.chainLive = false }

func NewStepRig(fillSeed uint64) *StepRig {
	g := &StepRig{}
	g.Refill(fillSeed)
	g.EmuMem.Logging = true
	g.RefMem.Logging = true
	return g
}

// Refill regenerates the pseudo-random base image of both memories.
func (g *StepRig) Refill(seed uint64) {
	g.fillSeed = seed
	g.EmuMem.Fill(seed)
	g.RefMem.Fill(seed)
	if g.Limit != 0 && g.LimitZero {
		for a := g.Limit; a < 65536; a++ {
			g.EmuMem.Data[a], g.RefMem.Data[a] = 0, 0
		}
	}
	// the mirrors are rebuilt from the new base on next use
	g.dm, g.mm = nil, nil
	g.dTouched = [3][]uint16{}
}

// directRun executes the case on the bundled memory type.  It is called when
// EmuMem holds exactly the pre-image (base + placed bytes), before any Step.
func (g *StepRig) directRun(c *StepCase) (post z80.States, halt bool, pan interface{}) {
	full := false
	if g.Direct == 1 && g.dm == nil {
		g.dm = make(z80.DumbMemory, 65536)
		if g.Limit != 0 && g.LimitZero {
			g.dm = make(z80.DumbMemory, g.Limit) // a short slice: above it reads 0, writes vanish
		}
		full = true
	}
	if g.Direct == 2 && g.mm == nil {
		g.mm = make(z80.MapMemory, 65536)
		full = true
	}
	set := func(a uint16, v uint8) {
		if int(a) < len(g.dm) {
			g.dm[a] = v
		}
	}
	var mem z80.Memory = g.dm
	if g.Direct == 2 {
		set = func(a uint16, v uint8) { g.mm[a] = v }
		mem = g.mm
	}
	if full {
		for a := 0; a < 65536; a++ {
			if g.Direct == 2 || a < len(g.dm) {
				set(uint16(a), g.EmuMem.Data[a])
			}
		}
	} else {
		for _, a := range g.dTouched[g.Direct] {
			set(a, g.EmuMem.Data[a])
		}
	}
	g.dTouched[g.Direct] = g.dTouched[g.Direct][:0]
	for k := range c.Bytes {
		a := c.Pre.PC + uint16(k)
		set(a, g.EmuMem.Data[a])
		g.dTouched[g.Direct] = append(g.dTouched[g.Direct], a)
	}
	cpu := z80.CPU{States: c.Pre, Memory: mem, HALT: c.PreHALT}
	if c.PendingRefused {
		cpu.Interrupt = &z80.Interrupt{Type: z80.IMType, Data: []uint8{0xff}}
		if c.Pre.IM == 2 {
			cpu.Interrupt.Data = []uint8{0x10}
		}
	}
	if !c.NoHandlers {
		var drc mon.RetCounter
		cpu.RETNHandler, cpu.RETIHandler = drc.Handlers()
	}
	if !g.NilIO {
		cpu.IO = &mon.IO{Seed: c.IOSeed}
	}
	func() {
		defer func() { pan = recover() }()
		cpu.Step()
	}()
	return cpu.States, cpu.HALT, pan
}

// directCompare compares the direct run with the monitored emulator run (same
// code under test, only the memory's dynamic type differs).
func (g *StepRig) directCompare(out *StepOutcome, post z80.States, halt bool, pan interface{}, mark int) {
	get := func(a uint16) uint8 { return g.dm.Get(a) }
	if g.Direct == 2 {
		get = func(a uint16) uint8 { return g.mm[a] }
	}
	g.DirectPost = post
	g.DirectNote = ""
	if pan != nil {
		out.Bad |= BadDirect
		g.DirectNote = fmt.Sprintf("panic: %v", pan)
	} else if out.Bad&BadPanic == 0 && (post != out.Post || halt != out.PostHALT) {
		out.Bad |= BadDirect
		g.DirectNote = "registers differ from the run on the monitor memory"
	}
	for _, a := range g.EmuMem.Dirty(mark) {
		g.dTouched[g.Direct] = append(g.dTouched[g.Direct], a)
		if pan == nil && get(a) != g.EmuMem.Data[a] {
			out.Bad |= BadDirect
			g.DirectNote = fmt.Sprintf("memory at %04X differs from the run on the monitor memory", a)
		}
	}
}

var _ = fmt.Sprint

// aspects that can disagree
const (
	BadState   = 1 << iota // registers / flags / IFF / IM / PC / SP / halted
	BadMem                 // memory image
	BadPortOut             // bytes sent to ports
	BadBus                 // multiset of memory reads / writes
	BadPortLog             // ordered port log (direction, port, value)
	BadHandler             // RETN/RETI notifications
	BadR                   // refresh register R
	BadPanic               // emulator panicked
	BadDirect              // outcome differs when a bundled memory type is handed to the CPU directly
)

// StepCase is one monitored Step.
type StepCase struct {
	Pre            z80.States
	Bytes          []uint8 // placed at PC (wrapping)
	IOSeed         uint64
	PreHALT        bool // CPU.HALT already true before the Step: the Step must behave the same; afterwards the indication may still be true (sticky, as on this tree) or have been dropped by a non-HALT instruction (pin-like)
	NoHandlers     bool // no RETN/RETI handler registered
	PendingRefused bool // a maskable request is pending with IFF1 clear: it is refused, stays pending, and the instruction runs as usual
	MoveCPU        bool // chain mode: continue on a by-value copy of the CPU struct; the old struct is scribbled over
	// RaiseDuring: a device raises a request from inside its callback while the
	// instruction executes (1: NMI on the first memory access, 2: NMI on the last
	// access made - memory or port, 3: a maskable mode-1 request on the first access).
	// Requests are examined at the start of a Step: this Step is the instruction's,
	// unchanged, and the request is still pending afterwards.
	RaiseDuring int
}

// StepOutcome is what the monitor observed.
type StepOutcome struct {
	Info     ref.Info
	Bad      int
	Post     z80.States
	PostHALT bool
	Exp      z80.States
	Panic    interface{}
	NData    int // data (non-instruction) bus events + port events observed
	Changed  bool
}

func inc7(r uint8) uint8 { return r&0x80 | (r+1)&0x7f }

// Run executes the case on both sides and compares.
func (g *StepRig) Run(c *StepCase) (out StepOutcome) {
	g.EmuMem.Reset()
	g.RefMem.Reset()
	if g.Limit != 0 && g.LimitZero {
		// nothing can be stored above the populated part: those bytes read 0
		for k, b := range c.Bytes {
			if a := c.Pre.PC + uint16(k); uint32(a) < g.Limit {
				g.EmuMem.Place(a, b)
				g.RefMem.Place(a, b)
			}
		}
	} else {
		g.EmuMem.Place(c.Pre.PC, c.Bytes...)
		g.RefMem.Place(c.Pre.PC, c.Bytes...)
	}
	mark := g.EmuMem.Mark()
	rmark := g.RefMem.Mark()
	g.EmuIO.Reset(c.IOSeed)
	g.RefIO.Reset(c.IOSeed)
	g.RC = mon.RetCounter{}
	hn, hi := g.RC.Handlers()
	if g.Chained && g.chainLive {
		// chain mode: the same CPU object keeps running (any unexported
		// per-instance state it may hold is carried over); only the public
		// halted indication is cleared, as Run does
		if c.MoveCPU {
			// a user may copy the CPU struct by value (fork, return by value):
			// the copy must behave like the original even after the original's
			// storage has been reused
			n := new(z80.CPU)
			*n = *g.CPU
			*g.CPU = z80.CPU{}
			g.CPU.States.IX, g.CPU.States.IY, g.CPU.States.SP = 0xdead, 0xbeef, 0x1234
			g.CPU.States.BC.SetU16(0x6b6b)
			g.CPU.States.DE.SetU16(0x5a5a)
			g.CPU.States.HL.SetU16(0xa5a5)
			g.CPU = n
		}
		g.CPU.HALT = false
		g.CPU.States = c.Pre
	} else {
		g.CPU = &z80.CPU{States: c.Pre, Memory: &g.EmuMem, RETNHandler: hn, RETIHandler: hi, HALT: c.PreHALT}
		if c.NoHandlers {
			g.CPU.RETNHandler, g.CPU.RETIHandler = nil, nil
		}
		if !g.NilIO {
			g.CPU.IO = &g.EmuIO
		}
		g.chainLive = g.Chained
	}

	var pendReq *z80.Interrupt
	if c.PendingRefused {
		c.Pre.IFF1 = false
		pendReq = &z80.Interrupt{Type: z80.IMType, Data: []uint8{0xff}}
		if c.Pre.IM == 2 {
			pendReq.Data = []uint8{0x10}
		}
		g.CPU.States = c.Pre
		g.CPU.Interrupt = pendReq
	} else {
		g.CPU.Interrupt = nil
	}
	var dPost z80.States
	var dHalt bool
	var dPan interface{}
	g.lastDirect = g.Direct
	if g.Direct != 0 {
		dPost, dHalt, dPan = g.directRun(c)
	}

	// reference first (it cannot panic on in-scope encodings)
	g.Ref = ToRef(&c.Pre, false)
	g.Ref.Mem = &g.RefMem
	if !g.NilIO {
		g.Ref.IO = &g.RefIO
	}
	out.Info = g.Ref.Step()
	out.Exp = FromRef(&g.Ref)

	var raised *z80.Interrupt
	if c.RaiseDuring != 0 {
		cpu := g.CPU
		raise := func() {
			if raised == nil || c.RaiseDuring == 2 {
				if c.RaiseDuring == 3 {
					raised = z80.IM1Interrupt()
				} else {
					raised = z80.NMIInterrupt()
				}
				cpu.Interrupt = raised
			}
		}
		g.EmuMem.Hook = func(*mon.Mem, mon.Access) { raise() }
		g.EmuIO.Hook = func(*mon.IO, mon.Access) {
			if c.RaiseDuring == 2 {
				raise()
			}
		}
	}
	func() {
		defer func() {
			if p := recover(); p != nil {
				out.Panic = p
				out.Bad |= BadPanic
			}
		}()
		g.CPU.Step()
	}()
	if c.RaiseDuring != 0 {
		g.EmuMem.Hook, g.EmuIO.Hook = nil, nil
		if g.CPU.Interrupt != raised && out.Bad&BadPanic == 0 {
			out.Bad |= BadState // raised during the instruction: examined at the start of the NEXT Step
		}
	}
	out.Post = g.CPU.States
	out.PostHALT = g.CPU.HALT
	if c.PendingRefused && g.CPU.Interrupt != pendReq && out.Bad&BadPanic == 0 {
		out.Bad |= BadState // a refused request must stay pending untouched
	}
	g.CPU.Interrupt = nil
	if g.Direct != 0 {
		g.directCompare(&out, dPost, dHalt, dPan, mark)
	}
	if out.Bad&BadPanic != 0 || !out.Info.InScope {
		return out
	}
	info := &out.Info

	// --- state
	p, e := Arch(out.Post), out.Exp
	fOK := (p.AF.Lo^e.AF.Lo)&info.FMask == 0
	if !fOK && info.HasAlt {
		fOK = (p.AF.Lo^info.AltF)&info.AltMask == 0
	}
	iffOK := p.IFF1 == e.IFF1 || (info.IFFAlt && p.IFF1 == p.IFF2)
	p.AF.Lo, e.AF.Lo = 0, 0
	p.IFF1, e.IFF1 = false, false
	pr, er := p.IR.Lo, e.IR.Lo
	p.IR.Lo, e.IR.Lo = 0, 0 // R is C14's subject; I stays in the comparison
	if p != e || !fOK || !iffOK || (out.PostHALT != info.Halt && out.PostHALT != (info.Halt || c.PreHALT)) {
		out.Bad |= BadState
	}
	if !(pr == er || (info.RAlt && pr == inc7(er))) {
		out.Bad |= BadR
	}

	// --- memory image: union of dirty addresses
	for _, a := range g.EmuMem.Dirty(mark) {
		if g.EmuMem.Data[a] != g.RefMem.Data[a] {
			out.Bad |= BadMem
		}
	}
	for _, a := range g.RefMem.Dirty(rmark) {
		if g.EmuMem.Data[a] != g.RefMem.Data[a] {
			out.Bad |= BadMem
		}
	}

	// --- ports
	if !g.NilIO {
		if !mon.EqualSeq(g.EmuIO.Log, g.RefIO.Log) {
			out.Bad |= BadPortLog
			// bytes sent to ports: compare the 'O' subsequences
			var eo, ro []mon.Access
			for _, a := range g.EmuIO.Log {
				if a.Kind == 'O' {
					eo = append(eo, a)
				}
			}
			for _, a := range g.RefIO.Log {
				if a.Kind == 'O' {
					ro = append(ro, a)
				}
			}
			if !mon.EqualSeq(eo, ro) {
				out.Bad |= BadPortOut
			}
		}
	}

	// --- bus multiset
	if !mon.EqualMultiset(g.EmuMem.Log, g.RefMem.Log) {
		out.Bad |= BadBus
	}

	// --- handlers
	if !c.NoHandlers && (g.RC.RETN != g.Ref.RETN || g.RC.RETI != g.Ref.RETI) {
		out.Bad |= BadHandler
	}
	if c.NoHandlers && (g.RC.RETN != 0 || g.RC.RETI != 0) {
		out.Bad |= BadHandler
	}

	out.NData = len(g.RefMem.Log) - info.Len + len(g.RefIO.Log)
	if info.Halt || info.Repeat || info.Taken {
		// Len is not meaningful after a control transfer; recount as
		// "events beyond the first fetches" conservatively
		out.NData = len(g.RefMem.Log) + len(g.RefIO.Log)
	}
	pre := c.Pre
	pre.PC, pre.IR = 0, z80.Register{}
	post := out.Exp
	post.PC, post.IR = 0, z80.Register{}
	out.Changed = pre != post || len(g.RefMem.Dirty(rmark)) > 0 || len(g.RefIO.Log) > 0
	return out
}

// Witness builds a replayable description of a disagreement.
func (g *StepRig) Witness(enc Encoding, c *StepCase, o *StepOutcome) map[string]interface{} {
	w := map[string]interface{}{
		"encoding":           enc.String(),
		"table":              enc.Table,
		"op":                 enc.Op,
		"bytes":              HexBytes(c.Bytes),
		"pre":                DumpState(&c.Pre, false),
		"mem_seed":           g.fillSeed,
		"io_seed":            c.IOSeed,
		"post_emu":           DumpState(&o.Post, o.PostHALT),
		"post_ref":           DumpState(&o.Exp, o.Info.Halt),
		"bad":                BadString(o.Bad),
		"emu_bus":            DumpAccesses(g.EmuMem.Log),
		"ref_bus":            DumpAccesses(g.RefMem.Log),
		"emu_ports":          DumpAccesses(g.EmuIO.Log),
		"ref_ports":          DumpAccesses(g.RefIO.Log),
		"f_mask":             h8(o.Info.FMask),
		"direct_memory_note": g.DirectNote,
		"pre_halt":           c.PreHALT,
		"no_handlers":        c.NoHandlers,
		"direct":             g.lastDirect,
		"pending_refused":    c.PendingRefused,
		"raise_during":       c.RaiseDuring,
		"limit":              g.Limit,
		"limit_zero":         g.LimitZero,
		"handlers":           fmt.Sprintf("emu RETN=%d RETI=%d ref RETN=%d RETI=%d", g.RC.RETN, g.RC.RETI, g.Ref.RETN, g.Ref.RETI),
	}
	if o.Info.HasAlt {
		w["alt_f"] = h8(o.Info.AltF)
	}
	if o.Panic != nil {
		w["panic"] = fmt.Sprint(o.Panic)
	}
	return w
}

func BadString(b int) string {
	names := []string{"state", "memory", "port-out", "bus", "port-log", "handler", "refresh", "panic", "bundled-memory-type"}
	s := ""
	for i, n := range names {
		if b&(1<<uint(i)) != 0 {
			if s != "" {
				s += "+"
			}
			s += n
		}
	}
	return s
}

// MakeStepCase draws the k-th pre-state for an encoding: F and the
// displacement cycle through all 256 values with k, the rest is
// boundary-biased random.
func MakeStepCase(enc Encoding, r *mon.Rng, k int) StepCase {
	pre := RandStates(r)
	pre.AF.Lo = uint8(k)
	d := uint8(k>>8) ^ uint8(k*37)
	if k < 512 {
		// make sure the extreme displacements are met early for every encoding
		switch k & 7 {
		case 1:
			d = 0x7f
		case 2:
			d = 0x80
		case 3:
			d = 0xff
		case 4:
			d = 0x00
		}
	}
	var bs []uint8
	switch enc.Table {
	case ref.TDDCB, ref.TFDCB:
		bs = enc.Bytes(d)
	default:
		bs = enc.Bytes(0)
		// operand bytes: displacement / immediate
		bs = append(bs, d, r.U8(), r.U8())
	}
	// occasionally aim 16-bit immediates at edges
	if enc.Table != ref.TDDCB && enc.Table != ref.TFDCB && r.Intn(4) == 0 {
		n := len(bs)
		v := Ptr16(r, pre.PC, pre.SP)
		bs[n-3], bs[n-2] = uint8(v), uint8(v>>8)
	}
	return StepCase{Pre: pre, Bytes: bs, IOSeed: r.U64()}
}
