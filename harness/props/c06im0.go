package props

import (
	"fmt"
	"sync"

	"github.com/koron-go/z80"
	"github.com/koron-go/z80/verif/mon"
	"github.com/koron-go/z80/verif/ref"
)

// c06IM0Any — "executes the supplied instruction in mode 0" for every
// implemented instruction, not only RST p / CALL nn: the device supplies the
// bytes of an arbitrary instruction; the outcome (registers, flags, memory,
// port traffic, data accesses) must be that of the same instruction executed
// by the reference model from memory with both flip-flops already cleared.
//
// Not judged here: PC-relative results and pushed return addresses (C07 and
// its known finding), R (C14), instructions that read or write IFF (the
// property does not say whether the flip-flops fall before or after the
// supplied instruction), HALT, and cases whose data accesses touch the bytes
// at PC (where this implementation overlays the supplied bytes).
func c06IM0Any(c *Ctx) (n, skipped int64) {
	encs := InScopeEncodings()
	per := c.Pick(24, 6000)
	var mu sync.Mutex
	Parallel(len(encs), func(ei int) {
		enc := encs[ei]
		switch enc.Table {
		case ref.TMain:
			op := enc.Op
			if op == 0x76 || op == 0xf3 || op == 0xfb || op == 0xcd || op&0xc7 == 0xc4 || op&0xc7 == 0xc7 {
				return // HALT, DI, EI, CALL, CALL cc, RST
			}
		case ref.TED:
			if enc.Op == 0x45 || enc.Op == 0x4d || enc.Op == 0x57 || enc.Op == 0x5f {
				return // RETN, RETI, LD A,I, LD A,R
			}
		}
		relative := enc.Table == ref.TMain && (enc.Op == 0x10 || enc.Op == 0x18 || enc.Op&0xe7 == 0x20)
		r := mon.NewRng(mon.Hash(uint64(c.Seed), uint64(enc.Key()), 0xC06D))
		memA, memB := &mon.Mem{}, &mon.Mem{}
		seed := r.U64()
		memA.Fill(seed)
		memB.Fill(seed)
		memA.Logging, memB.Logging = true, true
		var ln, ls int64
		for k := 0; k < per; k++ {
			sc := MakeStepCase(enc, r, r.Intn(1<<16))
			pre := sc.Pre
			pre.IM, pre.IFF1 = 0, true
			pc := pre.PC
			memA.Reset()
			memB.Reset()
			memB.Place(pc, sc.Bytes...)
			preB := pre
			preB.IFF1, preB.IFF2 = false, false
			rc := ToRef(&preB, false)
			rc.Mem = memB
			ioB := &mon.IO{Seed: sc.IOSeed}
			rc.IO = ioB
			info := rc.Step()
			if !info.InScope || info.Len < 1 || info.Len > len(sc.Bytes) {
				ls++
				continue
			}
			data := append([]uint8(nil), sc.Bytes[:info.Len]...)
			// the model's instruction fetches: the leading reads at PC, PC+1, ...
			nf := 0
			for nf < len(memB.Log) && nf < info.Len && memB.Log[nf].Kind == 'R' && memB.Log[nf].Addr == pc+uint16(nf) {
				nf++
			}
			if nf != info.Len {
				ls++
				continue
			}
			dataLog := memB.Log[nf:]
			touches := false
			for _, a := range dataLog {
				if a.Addr-pc < uint16(info.Len)+1 || pc-a.Addr < 2 {
					touches = true
				}
			}
			if touches {
				ls++
				continue
			}
			// program memory: identical to the model's behind the instruction, and the
			// complement of the supplied bytes where the interrupted program sits (the
			// supplied bytes must come from the device, not from there)
			for i, b := range sc.Bytes {
				if i < info.Len {
					b = ^b
				}
				memA.Place(pc+uint16(i), b)
			}
			memA.ClearLog()
			ioA := &mon.IO{Seed: sc.IOSeed}
			req := z80.IM0Interrupt(data[0], data[1:]...)
			cpu := z80.CPU{States: pre, Memory: memA, IO: ioA, Interrupt: req}
			var pan interface{}
			func() {
				defer func() { pan = recover() }()
				cpu.Step()
			}()
			ln++
			bad := ""
			exp := FromRef(&rc)
			got := Arch(cpu.States)
			got.IR.Lo = exp.IR.Lo
			fOK := (got.AF.Lo^exp.AF.Lo)&info.FMask == 0
			if !fOK && info.HasAlt {
				fOK = (got.AF.Lo^info.AltF)&info.AltMask == 0
			}
			got.AF.Lo = exp.AF.Lo
			// PC: this implementation continues behind the (virtual) instruction bytes; one
			// that resumes the interrupted instruction leaves PC where it was
			if relative || got.PC == exp.PC-uint16(info.Len) {
				got.PC = exp.PC
			}
			switch {
			case pan != nil:
				bad = fmt.Sprintf("panic: %v", pan)
			case cpu.Interrupt != nil:
				bad = "accepted request not consumed"
			case got != exp:
				bad = "registers differ from executing the same instruction from memory"
			case !fOK:
				bad = "flags differ from executing the same instruction from memory"
			case cpu.HALT:
				bad = "halted"
			case !mon.EqualSeq(ioA.Log, ioB.Log):
				bad = "port traffic differs from executing the same instruction from memory"
			case !mon.EqualMultiset(memA.Log, dataLog):
				bad = "memory accesses differ from the data accesses of the same instruction executed from memory"
			}
			if bad == "" {
				for _, a := range append(append([]uint16(nil), memA.Dirty(0)...), memB.Dirty(0)...) {
					if a-pc < uint16(info.Len) {
						continue // the instruction bytes of the memory-resident run
					}
					if memA.Data[a] != memB.Data[a] {
						bad = "memory differs from executing the same instruction from memory"
					}
				}
			}
			if bad != "" {
				c.R.Violation(fmt.Sprintf("C06/mode0-any/%s/%s", enc.String(), bad), map[string]interface{}{
					"what": bad, "supplied_instruction": HexBytes(data), "encoding": enc.String(), "pre": DumpState(&pre, false),
					"post": DumpState(&cpu.States, cpu.HALT), "post_memory_resident_model": DumpState(&exp, false), "f_mask": h8(info.FMask),
					"bus": DumpAccesses(memA.Log), "model_data_bus": DumpAccesses(dataLog), "ports": DumpAccesses(ioA.Log), "model_ports": DumpAccesses(ioB.Log),
					"mem_seed": seed, "io_seed": sc.IOSeed})
				break
			}
		}
		mu.Lock()
		n += ln
		skipped += ls
		mu.Unlock()
	})
	return
}

// c06Repeated — several acceptances in a row on ONE CPU object, with the host (or the
// program) rewriting the mode-2 table entry, the stack area and even replacing the memory
// object in between: every acceptance is judged by the same closed-form rule, on what
// memory holds NOW.
func c06Repeated(c *Ctx) (n int64) {
	r := mon.NewRng(uint64(c.Seed) ^ 0xC06E)
	nseq := c.Pick(3000, 1500000)
	mems := [2]*mon.Mem{{}, {}}
	mems[0].Fill(r.U64())
	mems[1].Fill(r.U64())
	for si := 0; si < nseq; si++ {
		cpu := &z80.CPU{Memory: mems[0]}
		cpu.States = RandStates(r)
		ivec := uint8(r.Intn(128) * 2)
		cpu.IR.Hi = r.U8()
		var trail []string
		for round := 0; round < 2+r.Intn(4); round++ {
			mem := mems[r.Intn(2)]
			cpu.Memory = mem // sometimes another object (bank switch / restored snapshot)
			kind := r.Intn(4)
			// the host assigns a complete new state (architectural fields only: whatever
			// latch an implementation keeps in extra public fields - e.g. an EI delay armed by
			// a stray FB among the random handler bytes - starts out clear, as in a new States)
			pre := Arch(cpu.States)
			pre.IFF1 = true
			pre.SP = 0x8000 + uint16(r.Intn(0x1000))
			pre.PC = 0x1000 + uint16(r.Intn(0x6000))
			ta := uint16(pre.IR.Hi)<<8 | uint16(ivec)
			if ta >= 0x7ff0 && ta < 0x9010 {
				pre.SP = 0xc000 // keep the stack off the table
			}
			target := r.U16()
			var it *z80.Interrupt
			want := uint16(0)
			switch kind {
			case 0:
				it, want = z80.NMIInterrupt(), 0x0066
			case 1:
				pre.IM = 1
				it, want = z80.IM1Interrupt(), 0x0038
			case 2:
				pre.IM = 2
				mem.Data[ta], mem.Data[ta+1] = uint8(target), uint8(target>>8) // the entry as it is NOW
				it, want = z80.IM2Interrupt(ivec), target
			default:
				pre.IM = 0
				p := uint8(r.Intn(8))
				it, want = z80.IM0Interrupt(0xc7|p<<3), uint16(p)*8
			}
			cpu.States = pre
			cpu.HALT = false
			cpu.Interrupt = it
			var pan interface{}
			func() {
				defer func() { pan = recover() }()
				cpu.Step()
			}()
			n++
			trail = append(trail, []string{"NMI", "mode 1", "mode 2", "mode 0 RST"}[kind])
			bad := ""
			switch {
			case pan != nil:
				bad = fmt.Sprintf("panic: %v", pan)
			case cpu.Interrupt != nil:
				bad = "request not accepted / not consumed"
			case cpu.PC != want:
				bad = fmt.Sprintf("handler address %04X, want %04X (the word stored in the table NOW / the fixed address)", cpu.PC, want)
			case cpu.SP != pre.SP-2:
				bad = "SP not lowered by 2"
			case cpu.IFF1 || (kind != 0 && cpu.IFF2) || (kind == 0 && cpu.IFF2 != pre.IFF1):
				bad = "IFF1/IFF2 after acceptance"
			case kind != 3 && (mem.Data[pre.SP-1] != uint8(pre.PC>>8) || mem.Data[pre.SP-2] != uint8(pre.PC)):
				bad = "return address not on the stack of the memory attached NOW"
			case kind == 3:
				// mode 0: the pushed value is PC or PC+1 (C07's known finding), in THIS memory
				pushed := uint16(mem.Data[pre.SP-2]) | uint16(mem.Data[pre.SP-1])<<8
				if pushed != pre.PC && pushed != pre.PC+1 {
					bad = "return address not on the stack of the memory attached NOW"
				}
			}
			if bad != "" {
				c.R.Violation("C06/repeated-acceptance/"+trail[len(trail)-1]+"/"+bad[:min(len(bad), 40)], map[string]interface{}{
					"what": bad, "acceptances_on_this_cpu_object": trail, "pre": DumpState(&pre, false), "post": DumpState(&cpu.States, cpu.HALT),
					"table_entry": h16(ta), "word_in_table": h16(uint16(mem.Data[ta]) | uint16(mem.Data[ta+1])<<8)})
				return
			}
			// the handler may or may not end with RETN/RETI before the next request: run a few
			// instructions of whatever is there (random bytes) half of the time
			if r.Bool() {
				func() {
					defer func() { recover() }()
					for k := 0; k < r.Intn(4); k++ {
						cpu.Step()
					}
				}()
			}
		}
	}
	return
}
