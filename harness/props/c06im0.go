package props

import (
	"fmt"
	"sync"

	"github.com/koron-go/z80"
	"github.com/koron-go/z80/verif/mon"
	"github.com/koron-go/z80/verif/ref"
)

// c06IM0Any — "executes the supplied instruction in mode 0" for every
// implemented instruction, not only RST p / CALL nn: the device supplies the
// bytes of an arbitrary instruction; the outcome (registers, flags, memory,
// port traffic, data accesses) must be that of the same instruction executed
// by the reference model from memory with both flip-flops already cleared.
//
// Not judged here: PC-relative results and pushed return addresses (C07 and
// its known finding), R (C14), instructions that read or write IFF (the
// property does not say whether the flip-flops fall before or after the
// supplied instruction), HALT, and cases whose data accesses touch the bytes
// at PC (where this implementation overlays the supplied bytes).
func c06IM0Any(c *Ctx) (n, skipped int64) {
	encs := InScopeEncodings()
	per := c.Pick(24, 400)
	var mu sync.Mutex
	Parallel(len(encs), func(ei int) {
		enc := encs[ei]
		switch enc.Table {
		case ref.TMain:
			op := enc.Op
			if op == 0x76 || op == 0xf3 || op == 0xfb || op == 0xcd || op&0xc7 == 0xc4 || op&0xc7 == 0xc7 {
				return // HALT, DI, EI, CALL, CALL cc, RST
			}
		case ref.TED:
			if enc.Op == 0x45 || enc.Op == 0x4d || enc.Op == 0x57 || enc.Op == 0x5f {
				return // RETN, RETI, LD A,I, LD A,R
			}
		}
		relative := enc.Table == ref.TMain && (enc.Op == 0x10 || enc.Op == 0x18 || enc.Op&0xe7 == 0x20)
		r := mon.NewRng(mon.Hash(uint64(c.Seed), uint64(enc.Key()), 0xC06D))
		memA, memB := &mon.Mem{}, &mon.Mem{}
		seed := r.U64()
		memA.Fill(seed)
		memB.Fill(seed)
		memA.Logging, memB.Logging = true, true
		var ln, ls int64
		for k := 0; k < per; k++ {
			sc := MakeStepCase(enc, r, r.Intn(1<<16))
			pre := sc.Pre
			pre.IM, pre.IFF1 = 0, true
			pc := pre.PC
			memA.Reset()
			memB.Reset()
			memB.Place(pc, sc.Bytes...)
			preB := pre
			preB.IFF1, preB.IFF2 = false, false
			rc := ToRef(&preB, false)
			rc.Mem = memB
			ioB := &mon.IO{Seed: sc.IOSeed}
			rc.IO = ioB
			info := rc.Step()
			if !info.InScope || info.Len < 1 || info.Len > len(sc.Bytes) {
				ls++
				continue
			}
			data := append([]uint8(nil), sc.Bytes[:info.Len]...)
			// the model's instruction fetches: the leading reads at PC, PC+1, ...
			nf := 0
			for nf < len(memB.Log) && nf < info.Len && memB.Log[nf].Kind == 'R' && memB.Log[nf].Addr == pc+uint16(nf) {
				nf++
			}
			if nf != info.Len {
				ls++
				continue
			}
			dataLog := memB.Log[nf:]
			touches := false
			for _, a := range dataLog {
				if a.Addr-pc < uint16(info.Len)+1 || pc-a.Addr < 2 {
					touches = true
				}
			}
			if touches {
				ls++
				continue
			}
			// program memory: identical to the model's behind the instruction, and the
			// complement of the supplied bytes where the interrupted program sits (the
			// supplied bytes must come from the device, not from there)
			for i, b := range sc.Bytes {
				if i < info.Len {
					b = ^b
				}
				memA.Place(pc+uint16(i), b)
			}
			memA.ClearLog()
			ioA := &mon.IO{Seed: sc.IOSeed}
			req := z80.IM0Interrupt(data[0], data[1:]...)
			cpu := z80.CPU{States: pre, Memory: memA, IO: ioA, Interrupt: req}
			var pan interface{}
			func() {
				defer func() { pan = recover() }()
				cpu.Step()
			}()
			ln++
			bad := ""
			exp := FromRef(&rc)
			got := Arch(cpu.States)
			got.IR.Lo = exp.IR.Lo
			fOK := (got.AF.Lo^exp.AF.Lo)&info.FMask == 0
			if !fOK && info.HasAlt {
				fOK = (got.AF.Lo^info.AltF)&info.AltMask == 0
			}
			got.AF.Lo = exp.AF.Lo
			// PC: this implementation continues behind the (virtual) instruction bytes; one
			// that resumes the interrupted instruction leaves PC where it was
			if relative || got.PC == exp.PC-uint16(info.Len) {
				got.PC = exp.PC
			}
			switch {
			case pan != nil:
				bad = fmt.Sprintf("panic: %v", pan)
			case cpu.Interrupt != nil:
				bad = "accepted request not consumed"
			case got != exp:
				bad = "registers differ from executing the same instruction from memory"
			case !fOK:
				bad = "flags differ from executing the same instruction from memory"
			case cpu.HALT:
				bad = "halted"
			case !mon.EqualSeq(ioA.Log, ioB.Log):
				bad = "port traffic differs from executing the same instruction from memory"
			case !mon.EqualMultiset(memA.Log, dataLog):
				bad = "memory accesses differ from the data accesses of the same instruction executed from memory"
			}
			if bad == "" {
				for _, a := range append(append([]uint16(nil), memA.Dirty(0)...), memB.Dirty(0)...) {
					if a-pc < uint16(info.Len) {
						continue // the instruction bytes of the memory-resident run
					}
					if memA.Data[a] != memB.Data[a] {
						bad = "memory differs from executing the same instruction from memory"
					}
				}
			}
			if bad != "" {
				c.R.Violation(fmt.Sprintf("C06/mode0-any/%s/%s", enc.String(), bad), map[string]interface{}{
					"what": bad, "supplied_instruction": HexBytes(data), "encoding": enc.String(), "pre": DumpState(&pre, false),
					"post": DumpState(&cpu.States, cpu.HALT), "post_memory_resident_model": DumpState(&exp, false), "f_mask": h8(info.FMask),
					"bus": DumpAccesses(memA.Log), "model_data_bus": DumpAccesses(dataLog), "ports": DumpAccesses(ioA.Log), "model_ports": DumpAccesses(ioB.Log),
					"mem_seed": seed, "io_seed": sc.IOSeed})
				break
			}
		}
		mu.Lock()
		n += ln
		skipped += ls
		mu.Unlock()
	})
	return
}
