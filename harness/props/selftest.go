package props

import (
	"encoding/hex"
	"fmt"
	"math/bits"
	"os"
	"path/filepath"
	"strings"
	"sync"

	"github.com/koron-go/z80/verif/ref"
)

// Oracle self-test: the reference model alone is driven through the 2x67
// canonical exerciser cases (records pinned in pins/, counter/shifter ported
// here) and must reproduce every expected CRC.  Those CRCs were measured on
// real silicon, so this validates the model's register/flag/memory results
// against hardware, independently of the emulator under test.

type flatMem struct{ d [65536]uint8 }

func (m *flatMem) Get(a uint16) uint8    { return m.d[a] }
func (m *flatMem) Set(a uint16, v uint8) { m.d[a] = v }

var crcTab = func() (t [256]uint32) {
	for i := 0; i < 256; i++ {
		c := uint32(i)
		for k := 0; k < 8; k++ {
			if c&1 != 0 {
				c = 0xedb88320 ^ (c >> 1)
			} else {
				c >>= 1
			}
		}
		t[i] = c
	}
	return
}()

func crcUpd(sum uint32, v uint8) uint32 { return crcTab[uint8(sum)^v] ^ (sum >> 8) }

// zexVector applies the exerciser's counter (inc vector) and shifter.
func zexVector(base, inc, shift []byte, shiftN, count uint64) []byte {
	code := make([]byte, 20)
	copy(code, base)
	for i := range code {
		if m := inc[i]; m != 0 && count != 0 {
			for j := uint8(1); j != 0; j <<= 1 {
				if m&j == 0 {
					continue
				}
				if count&1 != 0 {
					code[i] ^= j
				}
				count >>= 1
			}
		}
		if m := shift[i]; m != 0 && shiftN != 0 {
			for j := uint8(1); j != 0; j <<= 1 {
				if m&j == 0 {
					continue
				}
				if shiftN == 1 {
					code[i] ^= j
				}
				shiftN--
			}
		}
	}
	return code
}

func ones(b []byte) int {
	n := 0
	for _, x := range b {
		n += bits.OnesCount8(x)
	}
	return n
}

const zexMsbt = 0x0103
const zexIUT = 0x1000

// zexRunCase computes the CRC the reference model produces for one record.
func zexRunCase(rec *ZexRecord) (crc uint32, steps int64, err error) {
	base, _ := hex.DecodeString(rec.Base)
	inc, _ := hex.DecodeString(rec.Inc)
	shift, _ := hex.DecodeString(rec.Shift)
	mem := &flatMem{}
	cpu := &ref.CPU{Mem: mem}
	crc = 0xffffffff
	le := func(b []byte, i int) uint16 { return uint16(b[i]) | uint16(b[i+1])<<8 }
	runIter := func(sh, cnt uint64) error {
		v := zexVector(base, inc, shift, sh, cnt)
		copy(mem.d[zexIUT:], v[:4])
		mem.d[zexIUT+4] = 0
		cpu.IY, cpu.IX = le(v, 6), le(v, 8)
		cpu.H, cpu.L = v[11], v[10]
		cpu.D, cpu.E = v[13], v[12]
		cpu.B, cpu.C = v[15], v[14]
		cpu.F, cpu.A = v[16], v[17]
		cpu.SP = le(v, 18)
		cpu.PC = zexIUT
		copy(mem.d[zexMsbt:], v[4:20])
		mem.d[zexMsbt+16] = 0x2a
		mem.d[zexMsbt+17] = 0x06
		// HALT is skipped by the exerciser
		if v[0] == 0x76 || ((v[0] == 0xdd || v[0] == 0xfd) && v[1] == 0x76) {
			return nil
		}
		for n := 0; ; n++ {
			info := cpu.Step()
			steps++
			if !info.InScope {
				return fmt.Errorf("%s: out-of-scope encoding %x", rec.Msg, v[:4])
			}
			if cpu.PC == zexIUT+4 {
				break
			}
			if n > 100000 {
				return fmt.Errorf("%s: does not reach the breakpoint (%x)", rec.Msg, v[:4])
			}
		}
		out := []byte{
			mem.d[zexMsbt], mem.d[zexMsbt+1],
			uint8(cpu.IY), uint8(cpu.IY >> 8), uint8(cpu.IX), uint8(cpu.IX >> 8),
			cpu.L, cpu.H, cpu.E, cpu.D, cpu.C, cpu.B,
			cpu.F & rec.Mask, cpu.A,
			uint8(cpu.SP), uint8(cpu.SP >> 8),
		}
		for _, b := range out {
			crc = crcUpd(crc, b)
		}
		return nil
	}
	shiftMax := uint64(ones(shift))
	countMax := uint64(1) << uint(ones(inc))
	if err = runIter(0, 0); err != nil {
		return
	}
	for j := uint64(1); j < countMax; j++ {
		if err = runIter(1, j); err != nil {
			return
		}
	}
	for i := uint64(2); i < shiftMax+2; i++ {
		for j := uint64(0); j < countMax; j++ {
			if err = runIter(i, j); err != nil {
				return
			}
		}
	}
	return
}

// prelimSelfTest runs the pinned "preliminary Z80 tests" program (prelim.cim:
// jumps, calls, returns, stack, conditions, loads, exchanges, IX/IY, written for
// real hardware) on the reference model alone with a two-function BDOS stub; it
// must print "Preliminary tests complete".
func prelimSelfTest() (steps int64, err error) {
	img, rerr := os.ReadFile(filepath.Join(pinsDir(), "prelim.cim"))
	if rerr != nil {
		return 0, rerr
	}
	mem := &flatMem{}
	copy(mem.d[0x0100:], img)
	mem.d[0x0000] = 0x76 // warm boot: HALT
	mem.d[0x0005] = 0xc9 // BDOS entry: intercepted below, then RET
	mem.d[0x0006], mem.d[0x0007] = 0x00, 0xf0
	cpu := &ref.CPU{Mem: mem, PC: 0x0100}
	var out []byte
	for steps = 0; steps < 2_000_000; steps++ {
		if cpu.PC == 0x0005 {
			switch cpu.C {
			case 2:
				out = append(out, cpu.E)
			case 9:
				for a := cpu.DE(); mem.d[a] != '$' && len(out) < 4096; a++ {
					out = append(out, mem.d[a])
				}
			}
		}
		info := cpu.Step()
		if !info.InScope {
			return steps, fmt.Errorf("prelim: out-of-scope encoding at %04X", cpu.PC)
		}
		if info.Halt {
			break
		}
	}
	if !strings.Contains(string(out), "Preliminary tests complete") {
		return steps, fmt.Errorf("prelim: model printed %q at PC=%04X", string(out), cpu.PC)
	}
	return steps, nil
}

// SelfTestResult summarises the oracle self-test.
type SelfTestResult struct {
	Cases       int
	OK          int
	Steps       int64
	Fails       []string
	PrelimSteps int64
}

var selfOnce sync.Once
var selfRes SelfTestResult

// OracleSelfTest runs (once per process) the 134 hardware CRC cases on the
// reference model.
func OracleSelfTest() SelfTestResult {
	selfOnce.Do(func() {
		var recs []*ZexRecord
		for _, name := range []string{"zexdoc", "zexall"} {
			p, err := LoadPins(name)
			if err != nil {
				selfRes.Fails = append(selfRes.Fails, "pins: "+err.Error())
				return
			}
			for i := range p.Records {
				recs = append(recs, &p.Records[i])
			}
		}
		if n, err := prelimSelfTest(); err != nil {
			selfRes.Fails = append(selfRes.Fails, err.Error())
			return
		} else {
			selfRes.PrelimSteps = n
		}
		var mu sync.Mutex
		selfRes.Cases = len(recs)
		Parallel(len(recs), func(i int) {
			crc, steps, err := zexRunCase(recs[i])
			mu.Lock()
			defer mu.Unlock()
			selfRes.Steps += steps
			switch {
			case err != nil:
				selfRes.Fails = append(selfRes.Fails, err.Error())
			case crc != recs[i].CRC:
				selfRes.Fails = append(selfRes.Fails, fmt.Sprintf("%s: crc %08x want %08x", recs[i].Msg, crc, recs[i].CRC))
			default:
				selfRes.OK++
			}
		})
	})
	return selfRes
}

// RequireOracle runs the self-test and marks the run inconclusive when the
// oracle itself is broken.  Returns false if the check must not proceed.
func RequireOracle(c *Ctx) bool {
	res := OracleSelfTest()
	c.R.Set("oracle_selftest", map[string]interface{}{
		"hardware_crc_cases": res.Cases, "reproduced": res.OK, "model_steps": res.Steps,
		"prelim_program_completed_on_model": res.PrelimSteps > 0, "prelim_model_steps": res.PrelimSteps,
	})
	if res.OK != res.Cases || res.Cases != 134 {
		for _, f := range res.Fails {
			fmt.Println("ORACLE-BROKEN:", f)
		}
		c.R.Inconclusive(fmt.Sprintf("oracle self-test failed: %d/%d hardware CRCs reproduced", res.OK, res.Cases))
		return false
	}
	return true
}
