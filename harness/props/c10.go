package props

import (
	"fmt"
	"sync"
	"sync/atomic"

	"github.com/koron-go/z80"
	"github.com/koron-go/z80/internal/tinycpm"
	"github.com/koron-go/z80/verif/mon"
)

func init() {
	register("C10", "exploration", runC10)
}

// c10Case is a self-contained deterministic workload: program + callback plan.
type c10Case struct {
	P      *Prog
	Fill   uint64
	IOSeed uint64
	Plan   *irqPlan
	NoIO   bool // no device attached (CPU.IO nil): port reads give 0, writes vanish - per CPU
}

// c10Owned collects reports of host-owned request objects found modified.
var c10Owned sync.Map

var reattached atomic.Int64

func c10Make(seed uint64, idx int) *c10Case {
	r := mon.NewRng(mon.Hash(seed, uint64(idx), 0xC10))
	o := GenOpts{Base: 0x0100, MinBlocks: 2, MaxBlocks: 25, IM: r.Intn(3), Invalid: true}
	if idx%7 == 3 {
		o.Wrap = true
		o.MaxBlocks = 6
		o.IM = 2
	}
	cs := &c10Case{P: GenProgram(r, o), Fill: r.U64(), IOSeed: r.U64()}
	if idx%4 != 0 {
		pl := &irqPlan{}
		for i, n := 0, 1+r.Intn(3); i < n; i++ {
			pl.At = append(pl.At, uint64(15+r.Intn(300)))
			if r.Intn(3) == 0 {
				pl.Kind = append(pl.Kind, 0)
				pl.Data = append(pl.Data, nil)
				continue
			}
			pl.Kind = append(pl.Kind, 1)
			switch o.IM {
			case 0:
				if r.Bool() {
					pl.Data = append(pl.Data, []uint8{uint8(0xcf | r.Intn(7)<<3)})
				} else {
					h := cs.P.HandlerAddr()
					pl.Data = append(pl.Data, []uint8{0xcd, uint8(h), uint8(h >> 8)})
				}
			case 1:
				pl.Data = append(pl.Data, nil)
			default:
				pl.Data = append(pl.Data, []uint8{uint8(r.Intn(128) * 2)})
			}
		}
		pl.Reuse = idx%5 == 1
		cs.Plan = pl
	}
	cs.NoIO = idx%5 == 2
	return cs
}

// planClone gives every CPU its own plan object (the fired map is per plan).
func (pl *irqPlan) clone() *irqPlan {
	if pl == nil {
		return nil
	}
	return &irqPlan{At: pl.At, Kind: pl.Kind, Data: pl.Data, IOAt: pl.IOAt, Reuse: pl.Reuse}
}

type c10Machine struct {
	cpu  *z80.CPU
	mem  *mon.Mem
	io   *mon.IO
	plan *irqPlan
}

// owned reports (once per text) a host-owned request object that was modified.
func (m *c10Machine) owned() {
	if m.plan != nil {
		m.plan.checkOwned()
		if m.plan.Corrupt != "" {
			c10Owned.Store(m.plan.Corrupt, true)
		}
	}
}

func (cs *c10Case) boot() *c10Machine {
	m := &c10Machine{mem: &mon.Mem{}, io: &mon.IO{Seed: cs.IOSeed}}
	m.mem.Fill(cs.Fill)
	cs.P.Install(m.mem)
	m.mem.Logging = true
	m.cpu = &z80.CPU{States: cs.P.Init, Memory: m.mem, IO: m.io}
	if cs.NoIO {
		m.cpu.IO = nil
	}
	m.plan = cs.Plan.clone()
	m.plan.install(m.cpu, m.mem, m.io)
	return m
}

func stateHash(h uint64, s *z80.States, intr *z80.Interrupt) uint64 {
	h = mon.Hash(h, uint64(s.AF.U16())<<48|uint64(s.BC.U16())<<32|uint64(s.DE.U16())<<16|uint64(s.HL.U16()),
		uint64(s.Alternate.AF.U16())<<48|uint64(s.Alternate.BC.U16())<<32|uint64(s.Alternate.DE.U16())<<16|uint64(s.Alternate.HL.U16()),
		uint64(s.IX)<<48|uint64(s.IY)<<32|uint64(s.SP)<<16|uint64(s.PC), uint64(s.IR.U16())<<8|uint64(s.IM&0xff))
	x := uint64(0)
	if s.IFF1 {
		x |= 1
	}
	if s.IFF2 {
		x |= 2
	}
	if intr != nil {
		x |= 4 | uint64(intr.Type)<<8
		for _, d := range intr.Data {
			x = x*257 + uint64(d)
		}
	}
	return mon.Hash(h, x)
}

func logHash(h uint64, log []mon.Access) uint64 {
	for _, a := range log {
		h = mon.Hash(h, uint64(a.Kind)<<24|uint64(a.Addr)<<8|uint64(a.Val))
	}
	return h
}

// stepDigest Steps m once and folds the post-state and the Step's bus/port
// traffic into h.
func (m *c10Machine) stepDigest(h uint64) uint64 {
	m.mem.ClearLog()
	n := len(m.io.Log)
	m.cpu.Step()
	h = stateHash(h, &m.cpu.States, m.cpu.Interrupt)
	h = logHash(h, m.mem.Log)
	h = logHash(h, m.io.Log[n:])
	return h
}

const c10MaxSteps = 1500

// runDigests runs the case to its HALT (or the Step cap) and returns the
// per-Step digest chain.
func (cs *c10Case) runDigests() []uint64 {
	m := cs.boot()
	var out []uint64
	h := uint64(0)
	for i := 0; i < c10MaxSteps; i++ {
		h = m.stepDigest(h)
		out = append(out, h)
		if m.cpu.HALT && m.cpu.Interrupt == nil && m.cpu.PC == cs.P.HaltAddr {
			break
		}
	}
	m.owned()
	return out
}

// runDigestsSwapping is runDigests with the host replacing the memory OBJECT by an
// equal one (same bytes, same callbacks) every few Steps - bank switching to a shadow
// copy, restoring a snapshot into a new object.  The outcome depends only on the bytes
// memory returns, so the digest chain must be the one of the undisturbed run.
func (cs *c10Case) runDigestsSwapping(every int) []uint64 {
	m := cs.boot()
	var out []uint64
	h := uint64(0)
	for i := 0; i < c10MaxSteps; i++ {
		if i > 0 && i%every == 0 {
			nm := &mon.Mem{}
			nm.Data = m.mem.Data
			nm.Count = m.mem.Count
			nm.Logging = true
			nm.Hook = m.mem.Hook
			// the abandoned object must not be touched any more: poison it
			for a := range m.mem.Data {
				m.mem.Data[a] ^= 0xff
			}
			m.mem.Hook = func(*mon.Mem, mon.Access) { panic("access to a memory object that is no longer attached to the CPU") }
			m.mem = nm
			m.cpu.Memory = nm
		}
		h = m.stepDigest(h)
		out = append(out, h)
		if m.cpu.HALT && m.cpu.Interrupt == nil && m.cpu.PC == cs.P.HaltAddr {
			break
		}
	}
	return out
}

type c10Fault struct{}

// c10Noop is a RETN/RETI handler that only takes note.
type c10Noop struct{}

func (c10Noop) RETNHandle() {}
func (c10Noop) RETIHandle() {}

func copyIntr(it *z80.Interrupt) *z80.Interrupt {
	if it == nil {
		return nil
	}
	return &z80.Interrupt{Type: it.Type, Data: append([]uint8(nil), it.Data...)}
}

// rebuild constructs a new machine from copies of the public state of m:
// States, memory image, device state, pending request.
func (cs *c10Case) rebuild(m *c10Machine, copyHidden bool, n *c10Machine) *c10Machine {
	if n == nil {
		n = &c10Machine{mem: &mon.Mem{}}
	}
	n.io = &mon.IO{Seed: m.io.Seed, N: m.io.N}
	n.mem.Data = m.mem.Data
	n.mem.Count = m.mem.Count
	n.mem.Logging = true
	n.mem.ClearLog()
	n.mem.Hook = nil
	if copyHidden {
		// the "original": a value copy of the whole CPU struct, which keeps
		// any unexported per-instance state the implementation may hold
		cp := *m.cpu
		n.cpu = &cp
		n.cpu.Memory = n.mem
		n.cpu.IO = n.io
		n.cpu.Interrupt = copyIntr(m.cpu.Interrupt)
	} else {
		n.cpu = &z80.CPU{States: m.cpu.States, Memory: n.mem, IO: n.io, Interrupt: copyIntr(m.cpu.Interrupt)}
	}
	if cs.NoIO {
		n.cpu.IO = nil
	}
	n.plan = cs.Plan.clone()
	if m.plan != nil && n.plan != nil {
		// the device goes on using its own request objects
		n.plan.reqNMI, n.plan.reqINT, n.plan.origData = m.plan.reqNMI, m.plan.reqINT, m.plan.origData
	}
	n.plan.install(n.cpu, n.mem, n.io)
	return n
}

// C10 — determinism, snapshot/restore, isolation; whole binary under -race.
func runC10(c *Ctx) {
	mon.DiscardStdLog()
	nprog := c.Pick(100, 2000)
	rounds := c.Pick(200, 5000)
	var mu sync.Mutex
	var evals, snapshots, snapSteps, injected, concurrentRuns, alternations, baselineSteps, swapRuns, faultRuns int64
	distinct := mon.NewDistinct(4_000_000)
	gcounts := map[int]int64{}

	// sequential baseline digests
	cases := make([]*c10Case, nprog)
	base := make([][]uint64, nprog)
	basePanic := false
	func() {
		defer func() {
			if pn := recover(); pn != nil {
				basePanic = true
				c.R.Violation("C10/panic", map[string]interface{}{"panic": fmt.Sprint(pn), "what": "Step panicked in the sequential baseline"})
			}
		}()
		for i := range cases {
			cases[i] = c10Make(uint64(c.Seed), i)
			base[i] = cases[i].runDigests()
			baselineSteps += int64(len(base[i]))
		}
	}()
	if basePanic {
		return
	}

	// (a)+(b): determinism and every snapshot point, programs spread over
	// goroutines (each owning its machines) — this is already an isolation test
	Parallel(nprog, func(pi int) {
		defer func() {
			if pn := recover(); pn != nil {
				c.R.Violation("C10/panic", map[string]interface{}{"program": pi, "panic": fmt.Sprint(pn),
					"what": "Step panicked while other goroutines drive their own CPUs (or on a rebuilt CPU)"})
			}
		}()
		cs := cases[pi]
		// (a) second run from equal state
		d2 := cs.runDigests()
		bad := ""
		if len(d2) != len(base[pi]) {
			bad = "two runs from equal state and memory differ in length"
		} else {
			for i := range d2 {
				if d2[i] != base[pi][i] {
					bad = fmt.Sprintf("two CPUs with equal state and memory diverge at Step %d", i+1)
					break
				}
			}
		}
		if bad != "" {
			c.R.Violation("C10/determinism", map[string]interface{}{"what": bad, "program": pi, "code": HexBytes(cs.P.Code)})
			return
		}
		// (a2) the same run with the memory object replaced by an equal one every 29 Steps
		d3 := cs.runDigestsSwapping(29)
		for i := range d3 {
			if i >= len(base[pi]) || d3[i] != base[pi][i] {
				c.R.Violation("C10/memory-object-swapped", map[string]interface{}{
					"what":    fmt.Sprintf("the run diverges at Step %d when the host replaces CPU.Memory by another object holding the same bytes every 29 Steps (something remembers the old object)", i+1),
					"program": pi, "code": HexBytes(cs.P.Code)})
				return
			}
		}
		mu.Lock()
		swapRuns++
		mu.Unlock()
		// (b) snapshots
		master := cs.boot()
		n := len(base[pi])
		r := mon.NewRng(mon.Hash(uint64(c.Seed), uint64(pi), 0xC10B))
		var ls, lst, linj, lfault int64
		bufO, bufR := &c10Machine{mem: &mon.Mem{}}, &c10Machine{mem: &mon.Mem{}}
		for k := 0; k < n; k++ {
			// at boundary k: rebuilt from public state vs value copy of the original
			for variant := 0; variant < 2; variant++ {
				orig := cs.rebuild(master, true, bufO)
				rb := cs.rebuild(master, false, bufR)
				if k%3 == 1 {
					// one of the two has RETN/RETI handlers registered (they only get notified),
					// the other has none: what the CPU does may not depend on that
					orig.cpu.RETNHandler, orig.cpu.RETIHandler = c10Noop{}, c10Noop{}
				}
				if variant == 1 {
					// the same new request arrives at this boundary on both
					var it *z80.Interrupt
					if r.Intn(3) == 0 {
						it = z80.NMIInterrupt()
					} else {
						switch master.cpu.IM {
						case 0:
							it = z80.IM0Interrupt(0xff)
						case 1:
							it = z80.IM1Interrupt()
						default:
							it = z80.IM2Interrupt(uint8(r.Intn(128) * 2))
						}
					}
					orig.cpu.Interrupt = copyIntr(it)
					rb.cpu.Interrupt = copyIntr(it)
					linj++
				}
				limit := 40
				if variant == 0 && k%8 == 0 {
					limit = n - k + 8 // run to the end from every 8th snapshot
				}
				for s := 0; s < limit; s++ {
					ho := orig.stepDigest(0)
					hr := rb.stepDigest(0)
					lst++
					if ho != hr {
						c.R.Violation("C10/snapshot", map[string]interface{}{
							"what":    fmt.Sprintf("a CPU rebuilt from copies of States, memory and the pending request at boundary %d diverges from the original %d Steps later", k, s+1),
							"program": pi, "snapshot_step": k, "request_injected": variant == 1, "code": HexBytes(cs.P.Code),
							"original": DumpState(&orig.cpu.States, orig.cpu.HALT), "rebuilt": DumpState(&rb.cpu.States, rb.cpu.HALT),
							"original_bus": DumpAccesses(orig.mem.Log), "rebuilt_bus": DumpAccesses(rb.mem.Log)})
						return
					}
				}
				ls++
			}
			// every 5th boundary: a device callback panics in the middle of the next Step, the
			// host recovers and carries on with the same CPU object; a CPU built from the
			// public state at that moment must stay equal to it step for step
			if k%5 == 2 {
				orig := cs.rebuild(master, true, bufO)
				inner := orig.mem.Hook
				at := orig.mem.Count + uint64(1+r.Intn(3))
				orig.mem.Hook = func(m *mon.Mem, a mon.Access) {
					if m.Count == at {
						panic(c10Fault{})
					}
					if inner != nil {
						inner(m, a)
					}
				}
				faulted := false
				func() {
					defer func() {
						if p := recover(); p != nil {
							if _, ok := p.(c10Fault); !ok {
								panic(p)
							}
							faulted = true
						}
					}()
					orig.cpu.Step()
				}()
				orig.mem.Hook = inner
				if faulted && orig.cpu.Memory != z80.Memory(orig.mem) {
					// The panic unwound a mode-0 acceptance, which swaps CPU.Memory for its overlay
					// while the supplied instruction executes and (on this tree) does not restore it
					// when unwound.  CPU.Memory is a public field the host owns: a host that recovers
					// re-attaches its memory, and so does the monitor (observation recorded in
					// DESIGN §19; no property speaks about it).
					orig.cpu.Memory = orig.mem
					reattached.Add(1)
				}
				if faulted {
					rb := cs.rebuild(orig, false, bufR)
					if p := orig.cpu.Interrupt; p != nil && orig.plan != nil && (p == orig.plan.reqNMI || p == orig.plan.reqINT) {
						// The request pending at recovery is the device's own reused object (raised
						// during the unwound Step).  The device goes on assigning that same object, so
						// the rebuilt machine must stand in the same relation to it as the original:
						// hand it the object, not a private copy (a copy made the monitor compare two
						// different hosts - one whose device re-raises the pending object itself, one
						// whose device raises a different object - thorough seed 4, DESIGN §22).
						rb.cpu.Interrupt = p
					}
					for s := 0; s < 30; s++ {
						ho := orig.stepDigest(0)
						hr := rb.stepDigest(0)
						lst++
						if ho != hr {
							c.R.Violation("C10/after-recovered-device-panic", map[string]interface{}{
								"what":    fmt.Sprintf("a device callback panicked during the Step after boundary %d and the host recovered; %d Steps later the CPU differs from one built from its public state and memory at the moment of recovery", k, s+1),
								"program": pi, "snapshot_step": k, "code": HexBytes(cs.P.Code),
								"original": DumpState(&orig.cpu.States, orig.cpu.HALT), "rebuilt": DumpState(&rb.cpu.States, rb.cpu.HALT)})
							return
						}
					}
					lfault++
				}
			}
			distinct.Add(mon.Hash(uint64(pi), uint64(k)))
			master.stepDigest(0)
		}
		mu.Lock()
		snapshots += ls
		snapSteps += lst
		injected += linj
		faultRuns += lfault
		evals += ls
		mu.Unlock()
		if pi < 3 {
			code := cs.P.Code
			if len(code) > 48 {
				code = code[:48]
			}
			c.R.Sample(map[string]interface{}{"program": pi, "steps": n, "snapshot_points": n, "code_head": HexBytes(code), "callback_requests": planAt(cs.Plan)})
		}
	})

	// (c) N CPUs concurrently behind a barrier, against the sequential baseline
	for rd := 0; rd < rounds; rd++ {
		g := []int{2, 4, 8, 16}[rd%4]
		r := mon.NewRng(mon.Hash(uint64(c.Seed), uint64(rd), 0xC10C))
		idx := make([]int, g)
		for i := range idx {
			idx[i] = r.Intn(nprog)
			if i > 0 && r.Intn(3) == 0 {
				idx[i] = idx[0] // same program on several CPUs
			}
		}
		var wg sync.WaitGroup
		start := make(chan struct{})
		res := make([][]uint64, g)
		pan := make([]interface{}, g)
		for i := 0; i < g; i++ {
			wg.Add(1)
			go func(i int) {
				defer wg.Done()
				defer func() { pan[i] = recover() }()
				<-start
				res[i] = cases[idx[i]].runDigests()
			}(i)
		}
		close(start)
		wg.Wait()
		for i := 0; i < g; i++ {
			concurrentRuns++
			ok := pan[i] == nil && len(res[i]) == len(base[idx[i]])
			if ok {
				for j := range res[i] {
					if res[i][j] != base[idx[i]][j] {
						ok = false
						break
					}
				}
			}
			if !ok {
				c.R.Violation("C10/concurrent", map[string]interface{}{
					"what":  "a CPU driven concurrently with others on its own memory differs from its sequential run",
					"round": rd, "goroutines": g, "program": idx[i], "panic": fmt.Sprint(pan[i])})
			}
		}
		gcounts[g]++
		distinct.Add(mon.Hash(0xcc, uint64(rd)))
	}
	evals += concurrentRuns

	// (d) two CPUs with different programs stepped alternately on one goroutine
	nalt := nprog
	defer func() {
		if pn := recover(); pn != nil {
			c.R.Violation("C10/panic", map[string]interface{}{"panic": fmt.Sprint(pn), "what": "Step panicked in the alternating-CPU phase"})
		}
	}()
	for i := 0; i < nalt; i++ {
		a, b := cases[i], cases[(i*7+3)%nprog]
		ma, mb := a.boot(), b.boot()
		da, db := base[i], base[(i*7+3)%nprog]
		ha, hb := uint64(0), uint64(0)
		for s := 0; s < len(da) || s < len(db); s++ {
			if s < len(da) {
				ha = ma.stepDigest(ha)
				if ha != da[s] {
					c.R.Violation("C10/alternating", map[string]interface{}{"what": "stepping another CPU in between changes this CPU's behaviour", "program": i, "step": s})
					break
				}
			}
			if s < len(db) {
				hb = mb.stepDigest(hb)
				if hb != db[s] {
					c.R.Violation("C10/alternating", map[string]interface{}{"what": "stepping another CPU in between changes this CPU's behaviour", "program": (i*7 + 3) % nprog, "step": s})
					break
				}
			}
		}
		alternations++
	}
	evals += alternations

	// (e) the outcome depends only on the bytes memory returns, not on the
	// memory's type: the same program on the monitor memory, on z80.DumbMemory,
	// on a fully populated z80.MapMemory and on tinycpm.Memory, handed to the
	// CPU directly (no monitor in between)
	var typeRuns int64
	Parallel(nprog, func(pi int) {
		defer func() {
			if pn := recover(); pn != nil {
				c.R.Violation("C10/panic", map[string]interface{}{"program": pi, "panic": fmt.Sprint(pn), "what": "Step panicked on a bundled memory type"})
			}
		}()
		cs := cases[pi]
		ref := &mon.Mem{}
		ref.Fill(cs.Fill)
		cs.P.Install(ref)
		image := ref.Data
		chain := func(mem z80.Memory) ([]uint64, func(uint16) uint8) {
			cpu := &z80.CPU{States: cs.P.Init, Memory: mem, IO: &mon.IO{Seed: cs.IOSeed}}
			var out []uint64
			h := uint64(0)
			for i := 0; i < c10MaxSteps; i++ {
				cpu.Step()
				h = stateHash(h, &cpu.States, nil)
				out = append(out, h)
				if cpu.HALT && cpu.PC == cs.P.HaltAddr {
					break
				}
			}
			return out, mem.Get
		}
		want, wget := chain(ref)
		dm := make(z80.DumbMemory, 65536)
		copy(dm, image[:])
		mm := z80.MapMemory{}
		for a := 0; a < 65536; a++ {
			mm[uint16(a)] = image[a]
		}
		tm := tinycpm.NewMemory()
		for a := 0; a < 65536; a++ {
			tm.Set(uint16(a), image[a])
		}
		for name, m := range map[string]z80.Memory{"DumbMemory": dm, "MapMemory": mm, "tinycpm.Memory": tm} {
			got, get := chain(m)
			bad := ""
			if len(got) != len(want) {
				bad = "run length differs"
			} else {
				for i := range got {
					if got[i] != want[i] {
						bad = fmt.Sprintf("states diverge at Step %d", i+1)
						break
					}
				}
			}
			if bad == "" {
				for a := 0; a < 65536; a++ {
					if get(uint16(a)) != wget(uint16(a)) {
						bad = fmt.Sprintf("final memory differs at %04X", a)
						break
					}
				}
			}
			mu.Lock()
			typeRuns++
			mu.Unlock()
			if bad != "" {
				c.R.Violation("C10/memory-type/"+name, map[string]interface{}{
					"what":    "the same program and bytes give a different outcome on " + name + " handed to the CPU directly: " + bad,
					"program": pi, "code": HexBytes(cs.P.Code)})
			}
		}
	})
	evals += typeRuns
	c.R.Set("memory_type_runs", typeRuns)
	// (e2) single Steps of every implemented encoding from boundary-biased states
	// (operands at FFFF, stack at the top of memory ...) on the bundled types
	var typeSteps int64
	{
		encs := InScopeEncodings()
		Parallel(len(encs), func(si int) {
			enc := encs[si]
			rig := rigPool.Get().(*StepRig)
			defer func() {
				rig.Direct = 0
				rigPool.Put(rig)
			}()
			r := mon.NewRng(mon.Hash(uint64(c.Seed), uint64(enc.Key()), 0xC10E))
			rig.Refill(r.U64())
			per := c.Pick(96, 2000)
			for k := 0; k < per; k++ {
				sc := MakeStepCase(enc, r, k)
				// aim pointers at the top of memory more often than C01 does
				switch k % 6 {
				case 0:
					sc.Pre.SP = 0xffff - uint16(k/6%3)
				case 1:
					sc.Pre.HL.SetU16(0xffff)
				case 2:
					if n := len(sc.Bytes); n >= 3 {
						sc.Bytes[n-3], sc.Bytes[n-2] = 0xff, 0xff
					}
				}
				rig.Direct = 1 + k%2
				o := rig.Run(&sc)
				if o.Bad&BadDirect != 0 {
					w := rig.Witness(enc, &sc, &o)
					c.R.Violation("C10/memory-type/step/"+enc.String(), w)
				}
			}
			mu.Lock()
			typeSteps += int64(per)
			mu.Unlock()
		})
	}
	evals += typeSteps
	c.R.Set("memory_type_single_steps", typeSteps)

	// race detector reports
	prefix := mon.RaceLogPrefix()
	reports := mon.RaceReports(prefix, "github.com/koron-go/z80", "github.com/koron-go/z80/verif")
	nTarget, nHarness := 0, 0
	seen := map[string]bool{}
	for _, rr := range reports {
		if rr.InTarget {
			nTarget++
			if !seen[rr.Signature] {
				seen[rr.Signature] = true
				txt := rr.Text
				if len(txt) > 2500 {
					txt = txt[:2500]
				}
				c.R.Violation("C10/data-race/"+rr.Signature, map[string]interface{}{"race_report": txt})
			}
		} else {
			nHarness++
		}
	}
	if nHarness > 0 {
		c.R.Inconclusive(fmt.Sprintf("%d race reports involve only harness frames (monitor bug)", nHarness))
	}
	if prefix == "" {
		c.R.Inconclusive("GORACE log_path not set: race reports cannot be collected (run through ./check)")
	}
	c.R.Set("race_detector", raceEnabled)
	if !raceEnabled {
		c.R.Inconclusive("binary not built with -race")
	}
	c.R.Set("race_reports_in_z80", int64(nTarget))
	c.R.Set("race_reports_total", int64(len(reports)))
	// requests built by the public constructors are independent values: a host may edit the
	// Data of its own request in place (a device with a programmable vector register) or
	// append to it; what a later constructor call returns must not depend on that
	{
		var ctorN int64
		for v := 0; v < 256; v++ {
			a := z80.IM2Interrupt(uint8(v))
			if len(a.Data) > 0 {
				a.Data[0] ^= 0xff
				a.Data = append(a.Data, 0xee, 0xee, 0xee)
			}
			b := z80.IM2Interrupt(uint8(v))
			x := z80.IM0Interrupt(uint8(v), 0x34, 0x12)
			for i := range x.Data {
				x.Data[i] ^= 0xff
			}
			x.Data = append(x.Data, 0xee)
			y := z80.IM0Interrupt(uint8(v), 0x34, 0x12)
			n1, n2 := z80.NMIInterrupt(), z80.NMIInterrupt()
			n1.Type, n1.Data = z80.IMType, append(n1.Data, 0xff)
			ctorN += 3
			if len(b.Data) != 1 || b.Data[0] != uint8(v) || b.Type != z80.IMType ||
				len(y.Data) != 3 || y.Data[0] != uint8(v) || y.Data[1] != 0x34 || y.Data[2] != 0x12 ||
				n2.Type != z80.NMIType || len(n2.Data) != 0 || n1 == n2 || a == b {
				c.R.Violation("C10/requests-share-storage", map[string]interface{}{
					"what":   "after the host edited (in place) and appended to the Data of a request it had built, a later call of the same constructor returned a request with other contents: requests share storage process-wide",
					"vector": h8(uint8(v)), "IM2Interrupt_data": HexBytes(b.Data), "IM0Interrupt_data": HexBytes(y.Data), "NMI_type": int(n2.Type)})
				break
			}
		}
		// the Data of a request belongs to the host: a slice cut from a larger buffer (an RST
		// table, a bus buffer) has spare capacity, and acceptance may not write there
		for v := 0; v < 256 && c.R.Violations() == 0; v++ {
			for im := 0; im < 3; im++ {
				buf := []uint8{uint8(0xc7 | v&0x38), 0x11, 0x22, 0x33, 0x44, 0x55}
				if im == 2 {
					buf[0] = uint8(v) &^ 1
				}
				keep := append([]uint8(nil), buf...)
				m := &mon.Mem{}
				cpu := &z80.CPU{Memory: m, Interrupt: &z80.Interrupt{Type: z80.IMType, Data: buf[:1]}}
				cpu.IM, cpu.IFF1, cpu.SP, cpu.PC = im, true, 0x8000, 0x4000+uint16(v)
				func() {
					defer func() { recover() }()
					cpu.Step()
				}()
				ctorN++
				if !bytesEq(buf, keep) {
					c.R.Violation("C10/request-data-buffer-written", map[string]interface{}{
						"what": "accepting a request whose Data is a slice with spare capacity (cut from a larger host buffer) wrote into that buffer: state outside States and memory that other requests cut from the same buffer will see",
						"IM":   im, "buffer_before": HexBytes(keep), "buffer_after": HexBytes(buf)})
				}
			}
		}
		c.R.Set("constructor_independence_checks", ctorN)
	}
	// host-owned request objects (cases where the device re-assigns ONE object per kind)
	c10Owned.Range(func(k, _ interface{}) bool {
		c.R.Violation("C10/host-owned request object modified", map[string]interface{}{
			"what": "a request object built once by the host through the public constructors and re-assigned at every firing was modified behind the host's back (state outside States and memory that outlives the acceptance): " + k.(string)})
		return true
	})
	c.R.Set("runs_with_the_memory_object_replaced", swapRuns)
	c.R.Set("recovered_device_panics_continued", faultRuns)
	c.R.Set("recovered_panics_where_the_host_had_to_reattach_its_memory", reattached.Load())
	c.R.Set("evaluations", evals)
	c.R.Set("distinct_nontrivial", distinct.N())
	c.R.Set("programs", int64(nprog))
	c.R.Set("baseline_steps", baselineSteps)
	c.R.Set("snapshot_comparisons", snapshots)
	c.R.Set("snapshot_compare_steps", snapSteps)
	c.R.Set("snapshots_with_injected_request", injected)
	c.R.Set("concurrent_rounds", int64(rounds))
	c.R.Set("concurrent_cpu_runs", concurrentRuns)
	c.R.Set("goroutine_counts", map[string]int64{"2": gcounts[2], "4": gcounts[4], "8": gcounts[8], "16": gcounts[16]})
	c.R.Set("alternating_pairs", alternations)
	c.R.Set("exhaustive", false)
	c.R.Set("rule", "generated programs over all instruction classes incl. prefixes, block repeats, undefined DD/FD/ED sequences and NMI/INT (all modes) raised by bus callbacks; (a) two runs from equal state compared per Step by digests of States+pending request+bus/port traffic, and a third in which the host replaces the memory OBJECT by an equal one every 29 Steps (the abandoned object is poisoned); (b) at EVERY Step boundary k a CPU rebuilt from copies of States, the memory image, the device state and the pending request is run against a value copy of the original CPU (which keeps any hidden per-instance state), for 40 Steps (to the end from every 8th point), once as is and once with a fresh request injected at that boundary on both (at every third boundary one of the two has no-op RETN/RETI handlers registered and the other none); at every 5th boundary a device callback panics in the middle of the next Step, the host recovers, and the CPU must stay equal to one built from its public state at that moment; (c) rounds of 2/4/8/16 goroutines each driving its own CPU behind a barrier, digests compared with the sequential baseline; (d) pairs of different programs stepped alternately; (e) each program also on z80.DumbMemory, a fully populated z80.MapMemory and tinycpm.Memory handed to the CPU directly: per-Step state digests and the final image must equal the run on the monitor memory, plus single Steps of all 930 encodings from boundary-biased states (pointers and operands at FFFF) on DumbMemory/MapMemory directly; the whole binary runs under the Go race detector (halt_on_error=0, reports collected from log_path and attributed to z80 frames). Distinct = distinct (program, snapshot point) + concurrent rounds; every snapshot executes at least one Step")
	c.R.Assume("CPU.HALT is not part of the rebuilt state (Step never reads it); R is included in the comparison")
}
