package props

import (
	"github.com/koron-go/z80"
	"github.com/koron-go/z80/verif/mon"
)

// Program generator (DESIGN Appendix B): deterministic in the PRNG state,
// terminating (forward jumps, bounded DJNZ loops, small block counts) and
// register-transparent with respect to interrupts (never reads below SP, never
// LD A,R), ending in a HALT with interrupts enabled.

const (
	genData    = 0x4000 // data area 4000..40FF
	genStack   = 0xf000
	genCounter = 0x5000 // handler-private cell (excluded from comparisons)
	genHandler = 0x0080 // maskable handler at 0080, NMI handler at 00C0 (code starts at 0100)
)

type Chunk struct {
	Addr  uint16
	Bytes []uint8
}

type Prog struct {
	Base     uint16
	Code     []uint8
	HaltAddr uint16
	Chunks   []Chunk
	Init     z80.States
	IM       int
	I        uint8
	NBlocks  int
	HasIO    bool
	HasBlock bool
	HasDI    bool
	Wrapped  bool
}

// Install places code, handlers and vectors into mem.
func (p *Prog) Install(mem *mon.Mem) {
	mem.Place(p.Base, p.Code...)
	for _, c := range p.Chunks {
		mem.Place(c.Addr, c.Bytes...)
	}
}

type GenOpts struct {
	Base      uint16
	MaxBlocks int
	MinBlocks int
	IM        int  // interrupt mode set by the prologue
	Wrap      bool // code straddles FFFF->0000 (small program)
	NoIO      bool
	Invalid   bool // sprinkle undefined opcodes (C10/C12 programs)
	NoEI      bool // prologue leaves interrupts disabled
	HaltAtTop bool // lay the code out so that the final HALT is at FFFF
}

type asm struct {
	b    []uint8
	base uint16
	r    *mon.Rng
	subs [][]uint8 // subroutine bodies (placed after the HALT)
	// fixups: position of a 16-bit operand that must receive the address of sub i
	subFix []struct{ pos, sub int }
	o      GenOpts
	p      *Prog
	inDI   int
}

func (a *asm) emit(bs ...uint8)            { a.b = append(a.b, bs...) }
func (a *asm) here() uint16                { return a.base + uint16(len(a.b)) }
func (a *asm) dataAddr() uint16            { return genData + uint16(a.r.Intn(0xf0)) }
func (a *asm) w16(v uint16) (uint8, uint8) { return uint8(v), uint8(v >> 8) }

var gregs = []int{0, 1, 2, 3, 4, 5, 7} // B C D E H L A (index into r[] encoding)

func (a *asm) reg(avoidB bool) int {
	for {
		x := gregs[a.r.Intn(len(gregs))]
		if avoidB && x == 0 {
			continue
		}
		return x
	}
}

// straight emits one straight-line operation.  avoidB: B (and EXX / BC pair)
// must not be modified (inside DJNZ bodies).
func (a *asm) straight(avoidB bool) {
	r := a.r
	switch r.Intn(32) {
	case 0, 1:
		a.emit(uint8(0x06|a.reg(avoidB)<<3), r.U8()) // LD r,n
	case 2, 3:
		a.emit(uint8(0x40 | a.reg(avoidB)<<3 | a.reg(false))) // LD r,r'
	case 4, 5, 6:
		a.emit(uint8(0x80 | r.Intn(8)<<3 | a.reg(false))) // ALU A,r
	case 7:
		a.emit(uint8(0xc6|r.Intn(8)<<3), r.U8()) // ALU A,n
	case 8:
		a.emit(uint8(0x04 | r.Intn(2) | a.reg(avoidB)<<3)) // INC/DEC r
	case 9, 10:
		a.emit(0xcb, uint8(r.Intn(4)<<6|r.Intn(8)<<3|a.reg(avoidB))) // CB on register
	case 11:
		lo, hi := a.w16(r.U16())
		a.emit([]uint8{0x11, 0x21}[r.Intn(2)], lo, hi) // LD DE/HL,nn
	case 12:
		a.emit([]uint8{0x13, 0x1b, 0x23, 0x2b, 0x19, 0x29}[r.Intn(6)]) // INC/DEC DE/HL, ADD HL,DE/HL
	case 13:
		a.emit(0xed, []uint8{0x5a, 0x52, 0x6a, 0x62}[r.Intn(4)]) // ADC/SBC HL,DE/HL
	case 14:
		lo, hi := a.w16(a.dataAddr())
		a.emit([]uint8{0x32, 0x3a, 0x22, 0x2a}[r.Intn(4)], lo, hi) // LD (nn),A / A,(nn) / (nn),HL / HL,(nn)
	case 15:
		lo, hi := a.w16(a.dataAddr())
		a.emit(0xed, []uint8{0x53, 0x5b, 0x73}[r.Intn(3)], lo, hi) // LD (nn),DE / DE,(nn) / (nn),SP
	case 16, 17:
		lo, hi := a.w16(a.dataAddr())
		a.emit(0x21, lo, hi) // LD HL,data
		switch r.Intn(6) {
		case 0:
			a.emit(uint8(0x70 | []int{0, 1, 2, 3, 7}[r.Intn(5)])) // LD (HL),r
		case 1:
			a.emit(uint8(0x46 | []int{1, 2, 3, 7}[r.Intn(4)]<<3)) // LD r,(HL) (not B, H, L)
		case 2:
			a.emit([]uint8{0x34, 0x35}[r.Intn(2)]) // INC/DEC (HL)
		case 3:
			a.emit(uint8(0x86 | r.Intn(8)<<3)) // ALU A,(HL)
		case 4:
			a.emit(0xcb, uint8(r.Intn(4)<<6|r.Intn(8)<<3|6)) // CB (HL)
		case 5:
			a.emit(0xed, []uint8{0x67, 0x6f}[r.Intn(2)]) // RRD/RLD
		}
	case 18, 19:
		pf := []uint8{0xdd, 0xfd}[r.Intn(2)]
		lo, hi := a.w16(genData + 0x80)
		a.emit(pf, 0x21, lo, hi) // LD IX/IY,data+80
		d := uint8(r.Intn(0xe0) - 0x70)
		switch r.Intn(6) {
		case 0:
			a.emit(pf, uint8(0x70|[]int{0, 1, 2, 3, 4, 5, 7}[r.Intn(7)]), d) // LD (IX+d),r
		case 1:
			a.emit(pf, uint8(0x46|[]int{1, 2, 3, 4, 5, 7}[r.Intn(6)]<<3), d) // LD r,(IX+d)
		case 2:
			a.emit(pf, []uint8{0x34, 0x35}[r.Intn(2)], d)
		case 3:
			a.emit(pf, uint8(0x86|r.Intn(8)<<3), d)
		case 4:
			a.emit(pf, 0xcb, d, uint8(r.Intn(4)<<6|r.Intn(8)<<3|6))
		case 5:
			a.emit(pf, 0x36, d, r.U8())
		}
	case 20:
		pf := []uint8{0xdd, 0xfd}[r.Intn(2)]
		switch r.Intn(5) {
		case 0:
			a.emit(pf, []uint8{0x26, 0x2e}[r.Intn(2)], r.U8()) // LD IXH/IXL,n
		case 1:
			a.emit(pf, uint8(0x84|r.Intn(8)<<3|r.Intn(2))) // ALU A,IXH/IXL
		case 2:
			a.emit(pf, []uint8{0x24, 0x25, 0x2c, 0x2d, 0x23, 0x2b}[r.Intn(6)])
		case 3:
			a.emit(pf, []uint8{0x19, 0x29, 0x39}[r.Intn(3)]) // ADD IX,DE/IX/SP
		case 4:
			a.emit(pf, uint8(0x60|r.Intn(2)<<3|[]int{2, 3, 7}[r.Intn(3)])) // LD IXH/IXL,r
		}
	case 21:
		// DAA CPL SCF CCF RLCA RRCA RLA RRA; SCF/CCF twice as likely and half of the time
		// right behind an instruction that wrote the flags (implementations that emulate
		// the Q latch make SCF/CCF depend on whether the previous instruction did)
		if r.Bool() {
			a.emit(uint8(0x80 | r.Intn(8)<<3 | a.reg(false)))
		}
		a.emit([]uint8{0x27, 0x2f, 0x37, 0x3f, 0x37, 0x3f, 0x07, 0x0f, 0x17, 0x1f}[r.Intn(10)])
		if r.Bool() {
			// ... and AF is written to the data page without touching a register, so that all
			// eight flag bits of this moment are part of the final memory image:
			// PUSH AF ; EX (SP),HL ; LD (40xx),HL ; EX (SP),HL ; POP AF
			a.emit(0xf5, 0xe3, 0x22, uint8(0x02+2*r.Intn(0x70)), 0x40, 0xe3, 0xf1)
		}
	case 22:
		a.emit(0xed, 0x44) // NEG
	case 23:
		if avoidB {
			a.emit(0xeb) // EX DE,HL
		} else {
			a.emit([]uint8{0xeb, 0x08, 0xd9}[r.Intn(3)])
		}
	case 24:
		// PUSH qq ; op ; POP qq'
		qq := []uint8{0xc5, 0xd5, 0xe5, 0xf5}
		pp := []uint8{0xd1, 0xe1, 0xf1}
		if !avoidB {
			pp = append(pp, 0xc1)
		}
		a.emit(qq[r.Intn(4)])
		a.emit(uint8(0x80 | r.Intn(8)<<3 | a.reg(false)))
		a.emit(pp[r.Intn(len(pp))])
	case 25:
		pf := []uint8{0xdd, 0xfd}[r.Intn(2)]
		a.emit(pf, 0xe5)
		a.emit(0x3c)
		a.emit([]uint8{0xdd, 0xfd}[r.Intn(2)], 0xe1) // PUSH IX ; INC A ; POP IX/IY
	case 26:
		a.emit(0xd5, 0xe3, 0xd1) // PUSH DE ; EX (SP),HL ; POP DE
	case 27:
		a.emit(0xed, []uint8{0x57, 0x4f}[r.Intn(2)]) // LD A,I / LD R,A
	case 28:
		if a.o.NoIO {
			a.emit(0x00)
			return
		}
		a.p.HasIO = true
		switch r.Intn(4) {
		case 0:
			a.emit(0xdb, r.U8()) // IN A,(n)
		case 1:
			a.emit(0xd3, r.U8()) // OUT (n),A
		case 2:
			a.emit(0xed, uint8(0x40|[]int{1, 2, 3, 7}[r.Intn(4)]<<3)) // IN r,(C)
		case 3:
			a.emit(0xed, uint8(0x41|a.reg(false)<<3)) // OUT (C),r
		}
	case 30, 31:
		// accumulator loads through BC / DE / (nn) from anywhere in memory (pseudo-random
		// but fixed contents), away from the stack and the handler's private cell: these
		// are the instructions that set the chip-internal MEMPTR register
		addr := uint16(0x1000 + r.Intn(0xd000))
		if addr >= 0x4f00 && addr < 0x5100 {
			addr += 0x0800
		}
		lo, hi := a.w16(addr)
		switch r.Intn(3) {
		case 0:
			if avoidB {
				a.emit(0x11, lo, hi, 0x1a) // LD DE,nn ; LD A,(DE)
			} else {
				a.emit(0x01, lo, hi, 0x0a) // LD BC,nn ; LD A,(BC)
			}
		case 1:
			a.emit(0x11, lo, hi, 0x1a) // LD DE,nn ; LD A,(DE)
		case 2:
			a.emit(0x3a, lo, hi) // LD A,(nn)
		}
		if r.Intn(3) == 0 {
			// ... and a BIT on (HL) or (IX+d) soon after
			dl, dh := a.w16(a.dataAddr())
			a.emit(0x21, dl, dh, 0xcb, uint8(0x46|r.Intn(8)<<3))
		}
	case 29:
		if a.o.Invalid {
			switch r.Intn(4) {
			case 0:
				a.emit(0xed, []uint8{0x00, 0x77, 0xff, 0x80}[r.Intn(4)])
			case 1:
				a.emit(0xdd, []uint8{0x00, 0x01, 0xeb, 0xd9}[r.Intn(4)], 0x00, 0x00)
			case 2:
				a.emit(0xfd, 0xcb, r.U8(), []uint8{0x00, 0x47, 0xff}[r.Intn(3)])
			case 3:
				a.emit(0xdd, 0xcb, r.U8(), []uint8{0x01, 0x87, 0xc0}[r.Intn(3)])
			}
		} else {
			a.emit(0x00)
		}
	}
}

func (a *asm) straightRun(n int, avoidB bool) {
	for i := 0; i < n; i++ {
		a.straight(avoidB)
	}
}

// block emits one structured block.
func (a *asm) block() { a.blockOf(a.r.Intn(14)) }

func (a *asm) blockOf(which int) {
	r := a.r
	switch which {
	case 0, 1, 2, 3:
		a.straightRun(1+r.Intn(4), false)
	case 4: // JR cc,+skip over a short run
		a.emit(uint8(0x20|r.Intn(4)<<3), 0)
		pos := len(a.b) - 1
		a.straightRun(1+r.Intn(3), false)
		a.b[pos] = uint8(len(a.b) - pos - 1)
	case 5: // JP cc,fwd
		a.emit(uint8(0xc2|r.Intn(8)<<3), 0, 0)
		pos := len(a.b) - 2
		a.straightRun(1+r.Intn(3), false)
		t := a.here()
		a.b[pos], a.b[pos+1] = uint8(t), uint8(t>>8)
	case 6: // LD B,n ; body ; DJNZ body
		a.emit(0x06, uint8(1+r.Intn(8)))
		top := len(a.b)
		a.straightRun(1+r.Intn(3), true)
		a.emit(0x10, 0)
		a.b[len(a.b)-1] = uint8(top - len(a.b))
	case 7: // CALL [cc,] sub
		var body asm
		body = asm{base: 0, r: r, o: a.o, p: a.p}
		body.straightRun(1+r.Intn(4), false)
		if r.Intn(3) == 0 {
			body.emit(uint8(0xc0 | r.Intn(8)<<3)) // RET cc
			body.straightRun(1, false)
		}
		body.emit(0xc9)
		a.subs = append(a.subs, body.b)
		op := uint8(0xcd)
		if r.Intn(3) == 0 {
			op = uint8(0xc4 | r.Intn(8)<<3)
		}
		a.emit(op, 0, 0)
		a.subFix = append(a.subFix, struct{ pos, sub int }{len(a.b) - 2, len(a.subs) - 1})
	case 8: // LDIR / LDDR
		a.p.HasBlock = true
		k := uint16(1 + r.Intn(12))
		src, dst := genData+uint16(r.Intn(0x60)), genData+0x80+uint16(r.Intn(0x60))
		if r.Intn(3) == 0 {
			dst = src + uint16(r.Intn(7)) - 3 // overlapping
		}
		op := uint8(0xb0)
		if r.Bool() {
			op = 0xb8
			src += k
			dst += k
		}
		if r.Intn(5) == 0 {
			op &^= 0x10 // LDI / LDD
		}
		a.emit(0x21, uint8(src), uint8(src>>8), 0x11, uint8(dst), uint8(dst>>8), 0x01, uint8(k), 0, 0xed, op)
	case 9: // CPIR / CPDR
		a.p.HasBlock = true
		k := uint16(1 + r.Intn(12))
		src := genData + uint16(r.Intn(0xe0))
		op := []uint8{0xb1, 0xb9, 0xa1, 0xa9}[r.Intn(4)]
		a.emit(0x21, uint8(src), uint8(src>>8), 0x01, uint8(k), 0, 0xed, op)
	case 10: // OTIR / INIR / OTDR / INDR
		if a.o.NoIO {
			a.straightRun(2, false)
			return
		}
		a.p.HasBlock = true
		a.p.HasIO = true
		k := uint8(1 + r.Intn(6))
		src := genData + 0x10 + uint16(r.Intn(0xd0))
		op := []uint8{0xb3, 0xb2, 0xbb, 0xba, 0xa3, 0xa2, 0xab, 0xaa}[r.Intn(8)]
		a.emit(0x21, uint8(src), uint8(src>>8), 0x06, k, 0x0e, r.U8(), 0xed, op)
	case 11: // DI ; run (straight-line code, block instructions, loops) ; EI
		a.p.HasDI = true
		a.emit(0xf3)
		for i, n := 0, 1+r.Intn(4); i < n; i++ {
			if a.inDI == 0 && r.Intn(3) == 0 {
				a.inDI++
				a.blockOf([]int{6, 8, 8, 9, 10, 12, 4}[r.Intn(7)])
				a.inDI--
			} else {
				a.straight(false)
			}
		}
		if !a.o.NoEI {
			a.emit(0xfb)
		}
	case 12: // loop containing a call
		a.emit(0x06, uint8(1+r.Intn(4)))
		top := len(a.b)
		var body asm
		body = asm{base: 0, r: r, o: a.o, p: a.p}
		body.straightRun(1+r.Intn(2), true)
		body.emit(0xc9)
		a.subs = append(a.subs, body.b)
		a.emit(0xcd, 0, 0)
		a.subFix = append(a.subFix, struct{ pos, sub int }{len(a.b) - 2, len(a.subs) - 1})
		a.emit(0x10, 0)
		a.b[len(a.b)-1] = uint8(top - len(a.b))
	case 13: // JR over data bytes
		n := 1 + r.Intn(3)
		a.emit(0x18, uint8(n))
		for i := 0; i < n; i++ {
			a.emit(r.U8())
		}
	}
}

// handler code: saves what it uses, writes only below SP and to the private
// counter cell, ends with EI;RETI (maskable) or RETN.
func genHandlerCode(r *mon.Rng, nmi bool) []uint8 {
	h := []uint8{
		0xf5,                   // PUSH AF
		0xc5,                   // PUSH BC
		0x3a, 0x00, 0x50, 0x3c, // LD A,(5000) ; INC A
		0x32, 0x00, 0x50, // LD (5000),A
		0x06, uint8(1 + r.Intn(3)), // LD B,n
		0x3c,       // INC A
		0x10, 0xfd, // DJNZ $-1
	}
	if r.Bool() {
		h = append(h, 0xe5, 0x21, r.U8(), r.U8(), 0x29, 0xe1) // PUSH HL ; LD HL,nn ; ADD HL,HL ; POP HL
	}
	h = append(h, 0xc1, 0xf1) // POP BC ; POP AF
	if nmi {
		h = append(h, 0xed, 0x45)
	} else {
		h = append(h, 0xfb, 0xed, 0x4d)
	}
	return h
}

// GenProgram draws a program.  With o.Wrap the code is laid around address
// 0000 so that execution crosses FFFF->0000 (only NMI and mode-2 interrupts
// are usable then: the RST vectors are covered by code).
func GenProgram(r *mon.Rng, o GenOpts) *Prog {
	if !o.Wrap && !o.HaltAtTop {
		return genProgramAt(r, o)
	}
	for {
		seed := r.U64()
		o.Base = 0
		probe := genProgramAt(mon.NewRng(seed), o)
		if len(probe.Code) > 0xc0 {
			if o.MaxBlocks > 1 {
				o.MaxBlocks--
			}
			if o.MinBlocks > o.MaxBlocks {
				o.MinBlocks = o.MaxBlocks
			}
			continue
		}
		o.Base = uint16(0x10000 - len(probe.Code)/2)
		if o.HaltAtTop {
			// the final HALT sits exactly at FFFF (subroutines wrap to 0000..)
			o.Base = 0xffff - probe.HaltAddr
		}
		p := genProgramAt(mon.NewRng(seed), o)
		// drop the chunks that the code covers
		var keep []Chunk
		end := o.Base + uint16(len(p.Code)) // wrapped
		for _, c := range p.Chunks {
			if c.Addr < end+4 && c.Addr < 0x0080 {
				continue
			}
			keep = append(keep, c)
		}
		p.Chunks = keep
		p.Wrapped = true
		return p
	}
}

func genProgramAt(r *mon.Rng, o GenOpts) *Prog {
	p := &Prog{Base: o.Base, IM: o.IM}
	a := &asm{base: o.Base, r: r, o: o, p: p}
	p.I = uint8(0x60 + r.Intn(0x20)) // IM2 table page 60..7F
	// prologue
	a.emit(0x31, uint8(genStack&0xff), uint8(genStack>>8)) // LD SP,F000
	a.emit(0xed, []uint8{0x46, 0x56, 0x5e}[o.IM])          // IM m
	a.emit(0x3e, p.I, 0xed, 0x47)                          // LD A,i ; LD I,A
	a.emit(0x21, uint8(genData&0xff), uint8(genData>>8))   // LD HL,data
	a.emit(0x11, 0x80, uint8(genData>>8))                  // LD DE,data+80
	a.emit(0x01, uint8(1+r.Intn(8)), 0)                    // LD BC,k
	if !o.NoEI {
		a.emit(0xfb) // EI
	}
	nb := o.MinBlocks + r.Intn(o.MaxBlocks-o.MinBlocks+1)
	for i := 0; i < nb; i++ {
		a.block()
	}
	p.NBlocks = nb
	p.HaltAddr = a.here()
	a.emit(0x76)
	// subroutines after the HALT
	subAddr := make([]uint16, len(a.subs))
	for i, s := range a.subs {
		subAddr[i] = a.here()
		a.emit(s...)
	}
	for _, f := range a.subFix {
		a.b[f.pos], a.b[f.pos+1] = uint8(subAddr[f.sub]), uint8(subAddr[f.sub]>>8)
	}
	p.Code = a.b
	// handlers: one maskable (EI;RETI) and one NMI (RETN)
	hm := genHandlerCode(r, false)
	hn := genHandlerCode(r, true)
	hmAddr := uint16(genHandler)
	hnAddr := uint16(genHandler + 0x40)
	if o.Wrap || o.HaltAtTop {
		// keep clear of code laid around 0000
		hmAddr, hnAddr = 0x0200, 0x0240
	}
	p.Chunks = append(p.Chunks, Chunk{hmAddr, hm}, Chunk{hnAddr, hn})
	jp := func(t uint16) []uint8 { return []uint8{0xc3, uint8(t), uint8(t >> 8)} }
	for rst := uint16(0x08); rst <= 0x38; rst += 8 {
		p.Chunks = append(p.Chunks, Chunk{rst, jp(hmAddr)})
	}
	p.Chunks = append(p.Chunks, Chunk{0x0066, jp(hnAddr)})
	// IM2 table: every even entry of page I points to the maskable handler
	tab := make([]uint8, 257)
	for i := 0; i < 256; i += 2 {
		tab[i], tab[i+1] = uint8(hmAddr), uint8(hmAddr>>8)
	}
	tab[256] = uint8(hmAddr) // entry FF would read one byte past the page (odd vectors are not used)
	p.Chunks = append(p.Chunks, Chunk{uint16(p.I) << 8, tab[:256]})
	p.Chunks = append(p.Chunks, Chunk{genCounter, []uint8{0}})
	// initial state: arbitrary registers, PC at the program
	p.Init = RandStates(r)
	p.Init.PC = o.Base
	p.Init.SP = genStack
	p.Init.IFF1, p.Init.IFF2 = false, false
	p.Init.IM = r.Intn(3)
	return p
}

// HandlerAddr returns the address of the maskable handler (for IM0 CALL nn).
func (p *Prog) HandlerAddr() uint16 {
	if p.Wrapped {
		return 0x0200
	}
	return genHandler
}
