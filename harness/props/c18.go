package props

import (
	"bytes"
	"context"
	"fmt"
	"log"
	"os"
	"os/exec"
	"path/filepath"
	"strings"
	"sync"
	"sync/atomic"
	"time"

	"github.com/koron-go/z80"
	"github.com/koron-go/z80/internal/tinycpm"
	"github.com/koron-go/z80/verif/mon"
)

func init() {
	register("C18", "exploration", runC18)
}

type c18Call struct {
	Fn     int    // 2, 9, 100 (OUT n), 101 (IN n), other = unsupported function
	E      uint8  // fn 2
	Addr   uint16 // fn 9
	Str    []byte // fn 9 (without the terminator)
	Port   uint8
	RetPC  uint16
	CodeAt uint16
	Code   []byte
}

type c18Prog struct {
	Image  []byte // from 0100
	Calls  []c18Call
	SP     uint16
	Expect []byte
	Warns  int
	EndsOK bool // ends with JP 0 (otherwise with an unsupported function)
}

// genC18 lays out a program of mixed BDOS calls plus its strings in one image.
func (p *c18Prog) callsUnsupported() bool {
	for _, cl := range p.Calls {
		if cl.Fn >= 1000 {
			return true
		}
	}
	return false
}

func genC18(r *mon.Rng, maxStr int) *c18Prog {
	p := &c18Prog{SP: 0xfd00 + uint16(r.Intn(0x80))*2, EndsOK: true}
	img := make([]byte, 0xfc00-0x100)
	used := make([]bool, 0x10000)
	mark := func(a, n int) {
		for i := a; i < a+n; i++ {
			used[i] = true
		}
	}
	free := func(a, n int) bool {
		if a < 0x0300 || a+n > 0xfc00 {
			return false
		}
		for i := a; i < a+n; i++ {
			if used[i] {
				return false
			}
		}
		return true
	}
	mark(0x0100, 0x200) // program area
	ncalls := 1 + r.Intn(12)
	var code []byte
	emit := func(bs ...byte) { code = append(code, bs...) }
	emit(0x31, uint8(p.SP), uint8(p.SP>>8)) // LD SP,nn
	for i := 0; i < ncalls; i++ {
		var cl c18Call
		cl.CodeAt = 0x0100 + uint16(len(code))
		switch k := r.Intn(12); {
		case k < 4:
			cl.Fn = 2
			cl.E = r.U8()
			if r.Intn(6) == 0 {
				cl.E = '$'
			}
			emit(0x1e, cl.E, 0x0e, 0x02, 0xcd, 0x05, 0x00)
			p.Expect = append(p.Expect, cl.E)
		case k < 9:
			cl.Fn = 9
			var ln int
			switch r.Intn(5) {
			case 0:
				ln = 0
			case 1:
				ln = 1 + r.Intn(8)
			case 2:
				ln = 250 + r.Intn(12)
			case 3:
				ln = r.Intn(maxStr + 1)
			default:
				ln = r.Intn(600)
			}
			if ln > maxStr {
				ln = maxStr
			}
			s := make([]byte, ln)
			for j := range s {
				b := r.U8()
				if r.Intn(3) == 0 {
					b = 0x80 + uint8(r.Intn(0x80))
				}
				if b == '$' {
					b = 0x00
				}
				s[j] = b
			}
			// every byte value except '$' appears in long strings
			if ln >= 255 {
				o := 0
				for v := 0; v < 256; v++ {
					if v != '$' {
						s[o] = uint8(v)
						o++
					}
				}
			}
			var addr int
			for tries := 0; ; tries++ {
				addr = 0x0300 + r.Intn(0xfc00-0x0300)
				if r.Intn(3) == 0 && ln > 0 {
					// straddle a 256-byte page boundary
					page := (0x04 + r.Intn(0xf0)) << 8
					addr = page - 1 - r.Intn(minInt(ln, 200))
				}
				if free(addr, ln+1) {
					break
				}
				if tries > 200 {
					ln = 0
					s = s[:0]
				}
			}
			mark(addr, ln+1)
			copy(img[addr-0x100:], s)
			img[addr-0x100+ln] = '$'
			cl.Addr = uint16(addr)
			cl.Str = s
			emit(0x11, uint8(addr), uint8(addr>>8), 0x0e, 0x09, 0xcd, 0x05, 0x00)
			p.Expect = append(p.Expect, s...)
		case k < 10:
			cl.Fn = 100
			cl.Port = uint8(1 + r.Intn(255))
			emit(0x3e, r.U8(), 0xd3, cl.Port) // LD A,n ; OUT (port),A
			p.Warns++
		case k < 11:
			cl.Fn = 101
			cl.Port = r.U8()
			emit(0xdb, cl.Port) // IN A,(port)
			p.Warns++
		default:
			if i == ncalls-1 {
				// unsupported function number: only as the last call, only recorded
				fn := uint8(r.Intn(256))
				for fn == 2 || fn == 9 {
					fn++
				}
				cl.Fn = int(fn) + 1000
				emit(0x0e, fn, 0xcd, 0x05, 0x00)
				p.EndsOK = false
			} else {
				cl.Fn = 2
				cl.E = 'x'
				emit(0x1e, cl.E, 0x0e, 0x02, 0xcd, 0x05, 0x00)
				p.Expect = append(p.Expect, cl.E)
			}
		}
		cl.RetPC = 0x0100 + uint16(len(code))
		cl.Code = append([]byte(nil), code[cl.CodeAt-0x0100:]...)
		p.Calls = append(p.Calls, cl)
	}
	emit(0xc3, 0x00, 0x00) // JP 0
	copy(img, code)
	// trim the image to what is used
	end := len(code)
	for a := 0xfbff; a >= 0x0100; a-- {
		if used[a] && a >= 0x0300 {
			end = a - 0x100 + 1
			break
		}
	}
	if end < len(code) {
		end = len(code)
	}
	p.Image = img[:end]
	return p
}

// C18 — mini CP/M console.
func runC18(c *Ctx) {
	mon.DiscardStdLog()
	nprog := c.Pick(5000, 600000)
	var mu sync.Mutex
	var evals, consoleBytes, calls, fn9, fn2, warnsSeen, unsupported, pageCross, secondRounds, flakyRuns, loadedByFile int64
	distinct := mon.NewDistinct(1_000_000)
	Parallel(nprog, func(pi int) {
		r := mon.NewRng(mon.Hash(uint64(c.Seed), uint64(pi), 0xC18))
		mem, io := tinycpm.New()
		// other legal ways to get the bundled port device: a zero value configured through
		// its setters, and a by-value copy of a constructed one (the original is then
		// configured with a writer of its own that must stay silent)
		var origOut, origWarn lockedBuf
		var origIO *tinycpm.IO
		switch pi % 16 {
		case 5:
			mem, io = tinycpm.NewMemory(), &tinycpm.IO{}
		case 13:
			origIO = tinycpm.NewIO()
			origIO.SetStdout(&origOut)
			origIO.SetWarnLogger(log.New(&origWarn, "[ORIG]", 0))
			cp := *origIO
			mem, io = tinycpm.NewMemory(), &cp
		}
		cpu := &z80.CPU{Memory: mem, IO: io}
		if pi%4 >= 2 && c.R.Violations() == 0 {
			directRunMu.Lock()
			directRun[cpu] = true
			directRunMu.Unlock()
			defer func() {
				directRunMu.Lock()
				delete(directRun, cpu)
				directRunMu.Unlock()
			}()
		}
		// a second machine configured while this one is alive: its writer and logger
		// must never see this machine's traffic
		_, otherIO := tinycpm.New()
		var otherOut, otherWarn lockedBuf
		// every third shard loads a second program into the same machine and runs it on
		// the same CPU object after the first one has ended halted
		nrounds := 1
		if pi%3 == 0 {
			nrounds = 2
		}
		for round := 0; round < nrounds; round++ {
			p := genC18(r, 4096)
			swapMachine := round == 1 && pi%6 == 3
			if !swapMachine && pi%8 == 6 {
				// through the loader the command uses (also for the SECOND program of a
				// machine: a reload into the same memory)
				path := filepath.Join(c.Tmp, fmt.Sprintf("c18-load-%d-%d.cim", pi, round))
				os.WriteFile(path, p.Image, 0o644)
				lerr := mem.LoadFile(path)
				os.Remove(path)
				if lerr != nil {
					c.R.Violation("C18/LoadFile", map[string]interface{}{"what": "Memory.LoadFile failed on a generated program image: " + lerr.Error(), "image_bytes": len(p.Image), "program": pi})
					break
				}
				mu.Lock()
				loadedByFile++
				mu.Unlock()
			} else if !swapMachine {
				for i, b := range p.Image {
					mem.Set(0x0100+uint16(i), b)
				}
			}
			var out, warn lockedBuf
			// a writer that refuses exactly one Write call (transient host error) and works
			// again afterwards: what the program prints later must still be offered to it
			var flaky *flakyWriter
			if pi%16 == 9 && len(p.Expect) > 0 {
				flaky = &flakyWriter{w: &out, failAt: 1 + r.Intn(len(p.Expect))}
				io.SetStdout(flaky)
			} else if pi%2 == 1 {
				// a plain io.Writer (no WriteByte, no Flush): every console byte must have
				// reached it by the time the run has ended
				io.SetStdout(plainWriter{&out})
			} else {
				io.SetStdout(&out)
			}
			io.SetWarnLogger(log.New(&warn, "[W]", 0))
			// second round on a machine swapped in under the same CPU object, driven by Step
			stepDriven := false
			if swapMachine {
				mem, io = tinycpm.New()
				for i, b := range p.Image {
					mem.Set(0x0100+uint16(i), b)
				}
				io.SetStdout(plainWriter{&out})
				io.SetWarnLogger(log.New(&warn, "[W]", 0))
				cpu.Memory, cpu.IO = mem, io
				stepDriven = true
			}
			otherIO.SetStdout(&otherOut)
			otherIO.SetWarnLogger(log.New(&otherWarn, "[O]", 0))
			cpu.States = z80.States{SPR: z80.SPR{PC: 0x0100}}
			cpu.BreakPoints = map[uint16]struct{}{}
			if round > 0 && !p.EndsOK {
				break
			}
			for _, cl := range p.Calls {
				if cl.Fn == 2 || cl.Fn == 9 {
					cpu.BreakPoints[cl.RetPC] = struct{}{}
				}
			}
			bad := ""
			ci := 0
			var pan interface{}
			var err error
			steps := 0
			func() {
				defer func() { pan = recover() }()
				for steps = 0; steps < 64; steps++ {
					// bounded by a logical budget: a context that is cancelled by a Step counter is
					// not available, so Run is guarded by the breakpoint protocol and the final check
					if stepDriven {
						err = stepBounded(cpu, 200000)
					} else {
						err = runBounded(cpu, 200000)
					}
					if err != z80.ErrBreakPoint {
						return
					}
					// returned from a console call: which one?
					for ci < len(p.Calls) && !(p.Calls[ci].RetPC == cpu.PC && (p.Calls[ci].Fn == 2 || p.Calls[ci].Fn == 9)) {
						ci++
					}
					if ci >= len(p.Calls) {
						bad = fmt.Sprintf("stopped at an unexpected return address %04X", cpu.PC)
						return
					}
					cl := p.Calls[ci]
					ci++
					if cpu.SP != p.SP {
						bad = fmt.Sprintf("SP after the call = %04X, before = %04X", cpu.SP, p.SP)
						return
					}
					for i := range p.Image[:0x200] {
						if i < len(p.Image) && mem.Get(0x0100+uint16(i)) != p.Image[i] {
							bad = fmt.Sprintf("caller's code modified at %04X", 0x0100+i)
							return
						}
					}
					_ = cl
				}
			}()
			mu.Lock()
			evals++
			consoleBytes += int64(out.Len())
			calls += int64(len(p.Calls))
			mu.Unlock()
			nl := strings.Count(warn.String(), "\n")
			switch {
			case bad != "":
			case pan != nil:
				if _, isS := pan.(errStuck); isS {
					c.R.Inconclusive(fmt.Sprintf("C18 program %d: Run on the unwrapped machine still going after 20 s", pi))
					bad = ""
					pan = nil
					break
				}
				if _, isB := pan.(errBudget); isB {
					bad = "the run does not end (Step budget exhausted): console call does not return or the string terminator is not found"
				} else {
					bad = fmt.Sprintf("panic: %v", pan)
				}
			case p.EndsOK && (err != nil || !cpu.HALT || cpu.PC != 0xff03):
				bad = fmt.Sprintf("after JP 0 the run must end halted at FF03: err=%v HALT=%v PC=%04X", err, cpu.HALT, cpu.PC)
			case flaky != nil && flaky.failed:
				// accepted = everything asked for, with or without the refused chunk (a retry is fine)
				without := append(append([]byte(nil), p.Expect[:min(flaky.failPos, len(p.Expect))]...), p.Expect[min(flaky.failPos+len(flaky.refused), len(p.Expect)):]...)
				if !bytes.Equal(out.Bytes(), p.Expect) && !bytes.Equal(out.Bytes(), without) {
					bad = fmt.Sprintf("console output lost after one refused Write: call %d (%d byte(s)) was refused, the writer accepted %d bytes in all, want %d or %d", flaky.failAt, len(flaky.refused), out.Len(), len(p.Expect), len(without))
				} else if nl < p.Warns {
					bad = fmt.Sprintf("%d warning lines for %d non-console port accesses (only those warn, and each does)", nl, p.Warns)
				} else {
					mu.Lock()
					flakyRuns++
					mu.Unlock()
				}
			case !bytes.Equal(out.Bytes(), p.Expect):
				bad = "console output differs"
				if len(out.Bytes()) != len(p.Expect) {
					bad = fmt.Sprintf("console output has %d bytes, want %d", out.Len(), len(p.Expect))
				}
			case (p.Warns == 0 && nl != 0 && !p.callsUnsupported()) || nl < p.Warns:
				// the text (and number of lines) of a warning is free: at least one line per
				// non-console port access, none at all when there is only console traffic (what
				// the resident code does on an UNSUPPORTED function number is not specified - it
				// may report it through a port of its own - so those programs may warn freely)
				bad = fmt.Sprintf("%d warning lines for %d non-console port accesses (only those warn, and each does)", nl, p.Warns)
			}
			var l9, l2, lu, lpc int64
			for _, cl := range p.Calls {
				switch {
				case cl.Fn == 9:
					l9++
					if len(cl.Str) > 0 && (int(cl.Addr)>>8) != ((int(cl.Addr)+len(cl.Str))>>8) {
						lpc++
					}
				case cl.Fn == 2:
					l2++
				case cl.Fn >= 1000:
					lu++
				}
			}
			mu.Lock()
			fn9 += l9
			fn2 += l2
			unsupported += lu
			pageCross += lpc
			warnsSeen += int64(nl)
			mu.Unlock()
			distinct.Add(mon.Hash(uint64(pi), uint64(len(p.Calls)), uint64(len(p.Expect))))
			if bad != "" {
				sig := bad
				if len(sig) > 42 {
					sig = sig[:42]
				}
				var cd []string
				for _, cl := range p.Calls {
					cd = append(cd, fmt.Sprintf("fn=%d E=%02X addr=%04X len=%d port=%02X", cl.Fn, cl.E, cl.Addr, len(cl.Str), cl.Port))
				}
				g, w := out.Bytes(), p.Expect
				if len(g) > 64 {
					g = g[:64]
				}
				if len(w) > 64 {
					w = w[:64]
				}
				c.R.Violation("C18/"+sig, map[string]interface{}{"what": bad, "program": pi, "calls": cd, "SP": h16(p.SP),
					"console_head": HexBytes(g), "want_head": HexBytes(w), "warnings": warn.String(), "state": DumpState(&cpu.States, cpu.HALT)})
			}
			if pi < 3 {
				var cd []string
				for _, cl := range p.Calls {
					cd = append(cd, fmt.Sprintf("fn=%d E=%02X addr=%04X len=%d port=%02X", cl.Fn, cl.E, cl.Addr, len(cl.Str), cl.Port))
				}
				c.R.Sample(map[string]interface{}{"program": pi, "round": round, "calls": cd, "console_bytes": out.Len(), "warnings": nl})
			}
			if origIO != nil && (origOut.Len() != 0 || origWarn.Len() != 0) {
				c.R.Violation("C18/copy-writes-to-the-original", map[string]interface{}{
					"what": "console bytes or warnings of a by-value copy of a tinycpm.IO (configured with its own SetStdout/SetWarnLogger) reached the writer/logger of the original", "program": pi,
					"original_console": HexBytes(origOut.Bytes()[:min(origOut.Len(), 32)]), "original_warnings": origWarn.String()[:min(origWarn.Len(), 200)]})
			}
			if otherOut.Len() != 0 || otherWarn.Len() != 0 {
				c.R.Violation("C18/another-machine-saw-the-traffic", map[string]interface{}{
					"what": "console bytes or warnings of this machine reached the writer/logger configured on another tinycpm machine", "program": pi})
			}
			if bad != "" || !p.EndsOK {
				break // the machine is not in its end state: no second round
			}
			if round == 1 {
				mu.Lock()
				secondRounds++
				mu.Unlock()
			}
		}
	})

	// the built cmd/zexdoc binary: real stdout / stderr / exit status
	var binRuns int64
	zexdocBin := filepath.Join(c.Tmp, "zexdoc")
	if _, err := os.Stat(zexdocBin); err != nil {
		c.R.Inconclusive("built cmd/zexdoc binary missing")
	} else if c.R.Violations() > 0 {
		// the in-process runs already show a violation; a console call that never
		// returns would only make the binary spin
		c.R.Set("cmd_zexdoc_binary_skipped", "violations already found in-process")
	} else if why := c18ProbeBinary(c, zexdocBin); why != "" {
		// how the command finds its program (a file in the working directory on this tree)
		// is not part of C18: when it does not run OUR file there is nothing to compare
		c.R.Set("cmd_zexdoc_binary_skipped", why)
		c.R.Assume("the built cmd/zexdoc binary was not exercised: " + why)
	} else {
		nb := c.Pick(100, 3000)
		var slow atomic.Int64
		defer func() {
			if n := slow.Load(); n > 0 {
				c.R.Inconclusive(fmt.Sprintf("%d run(s) of the built cmd/zexdoc binary were still going after 60 s of wall-clock time on programs that end with JP 0 (no verdict from a stopwatch)", n))
			}
		}()
		Parallel(nb, func(bi int) {
			r := mon.NewRng(mon.Hash(uint64(c.Seed), uint64(bi), 0xC18B))
			p := genC18(r, 2000)
			for !p.EndsOK {
				p = genC18(r, 2000)
			}
			dir := filepath.Join(c.Tmp, fmt.Sprintf("c18-%d", bi))
			os.MkdirAll(dir, 0o755)
			defer os.RemoveAll(dir)
			name := "zexdoc.cim"
			args := []string{}
			if bi%2 == 1 {
				name = "zexall.cim"
				args = []string{"-all"}
			}
			os.WriteFile(filepath.Join(dir, name), p.Image, 0o644)
			// the same generator's programs all terminate in-process within the Step
			// budget; the watchdog here only protects the check from a spinning child
			cctx, ccancel := context.WithTimeout(context.Background(), 60*time.Second)
			defer ccancel()
			cmd := exec.CommandContext(cctx, zexdocBin, args...)
			cmd.Dir = dir
			var so, se bytes.Buffer
			cmd.Stdout, cmd.Stderr = &so, &se
			err := cmd.Run()
			mu.Lock()
			binRuns++
			consoleBytes += int64(so.Len())
			mu.Unlock()
			bad := ""
			switch {
			case cctx.Err() != nil:
				slow.Add(1)
			case err != nil:
				bad = "cmd/zexdoc exited with an error: " + err.Error() + " " + se.String()
			case !bytes.Equal(so.Bytes(), p.Expect):
				bad = fmt.Sprintf("stdout of cmd/zexdoc differs from the console bytes the program asked for (%d vs %d bytes)", so.Len(), len(p.Expect))
			case (p.Warns == 0 && strings.Count(se.String(), "\n") != 0) || strings.Count(se.String(), "\n") < p.Warns:
				bad = fmt.Sprintf("stderr of cmd/zexdoc has %d lines, want %d warnings", strings.Count(se.String(), "\n"), p.Warns)
			}
			if bad != "" {
				sig := bad
				if len(sig) > 40 {
					sig = sig[:40]
				}
				c.R.Violation("C18/binary/"+sig, map[string]interface{}{"what": bad, "image_bytes": len(p.Image), "stderr": se.String()})
			}
		})
	}
	c.R.Set("evaluations", evals+binRuns)
	c.R.Set("programs", evals)
	c.R.Set("cmd_zexdoc_binary_runs", binRuns)
	c.R.Set("second_programs_on_the_same_cpu_and_machine", secondRounds)
	c.R.Set("runs_with_one_refused_console_write", flakyRuns)
	c.R.Set("programs_loaded_through_Memory_LoadFile", loadedByFile)
	c.R.Set("distinct_nontrivial", distinct.N())
	c.R.Set("console_bytes", consoleBytes)
	c.R.Set("bdos_calls", calls)
	c.R.Set("function_9_calls", fn9)
	c.R.Set("function_2_calls", fn2)
	c.R.Set("strings_crossing_a_page", pageCross)
	c.R.Set("warning_lines_seen", warnsSeen)
	c.R.Set("unsupported_function_calls_recorded", unsupported)
	c.R.Set("exhaustive", false)
	c.R.Set("rule", "generated programs of 1..12 mixed calls on tinycpm (as imported from /repo): function 2 with every E value incl. '$', function 9 with strings of length 0..4096 over every byte value except '$' (long strings contain all 255 values; 1/3 high bytes) at arbitrary addresses incl. straddling 256-byte pages, OUT (n!=0),A and IN A,(n) (must warn, no console byte), an unsupported function number only as the last call (recorded, no verdict), then JP 0; BreakPoints on every call's return address: SP restored, the caller's code intact; the writer must receive exactly the concatenation in program order, warning lines only for non-console port traffic, the run must end halted at FF03; an eighth of the machines get their programs through Memory.LoadFile (the second one as a reload into the same memory); every third machine then gets a second program loaded and run on the same CPU object (sometimes on a fresh machine swapped in under that CPU and driven by Step); half of the machines write to a plain io.Writer without WriteByte/Flush; a second tinycpm machine configured alongside must see none of the traffic. A sample of programs is also written as zexdoc.cim / zexall.cim and run through the BUILT cmd/zexdoc binary (real stdout, stderr, exit status). Distinct = distinct (program, number of calls, console length); every program makes at least one call")
	c.R.Assume("unsupported BDOS function numbers have no specified outcome")
}

// c18ProbeBinary runs two one-call programs ('A' and 'B' through function 2, then JP 0)
// through the built command.  It returns "" when the command runs the program file
// placed in its working directory, and a reason when it provably does not (the same
// non-empty output for both programs: e.g. an embedded image).
func c18ProbeBinary(c *Ctx, bin string) string {
	run := func(marker byte) ([]byte, bool) {
		dir := filepath.Join(c.Tmp, fmt.Sprintf("c18-probe-%c", marker))
		os.MkdirAll(dir, 0o755)
		defer os.RemoveAll(dir)
		os.WriteFile(filepath.Join(dir, "zexdoc.cim"), []byte{0x0e, 0x02, 0x1e, marker, 0xcd, 0x05, 0x00, 0xc3, 0x00, 0x00}, 0o644)
		cctx, cancel := context.WithTimeout(context.Background(), 20*time.Second)
		defer cancel()
		cmd := exec.CommandContext(cctx, bin)
		cmd.Dir = dir
		var so bytes.Buffer
		cmd.Stdout = &so
		cmd.Run()
		return so.Bytes(), cctx.Err() != nil
	}
	a, _ := run('A')
	if string(a) == "A" {
		return ""
	}
	b, _ := run('B')
	if len(a) > 0 && bytes.Equal(a, b) {
		head := a
		if len(head) > 40 {
			head = head[:40]
		}
		return fmt.Sprintf("the command does not run ./zexdoc.cim from its working directory: two different one-call programs both produced the same %d bytes of output (%q...)", len(a), head)
	}
	return ""
}

type errBudget struct{}
type errStuck struct{}

// directRun marks CPUs whose Run calls get the machine's memory unwrapped.
var directRun = map[*z80.CPU]bool{}
var directRunMu sync.Mutex

// plainWriter hides every method of the underlying buffer except Write.
// lockedBuf is the writer handed to the machines: a buffer that stays sane when a
// defect makes several machines (driven from several goroutines) write to it at once
// - the monitor's own state must not become the casualty of the race it is there to see.
type lockedBuf struct {
	mu sync.Mutex
	b  bytes.Buffer
}

func (l *lockedBuf) Write(p []byte) (int, error) {
	l.mu.Lock()
	defer l.mu.Unlock()
	return l.b.Write(p)
}
func (l *lockedBuf) WriteByte(c byte) error {
	l.mu.Lock()
	defer l.mu.Unlock()
	return l.b.WriteByte(c)
}
func (l *lockedBuf) Bytes() []byte {
	l.mu.Lock()
	defer l.mu.Unlock()
	return append([]byte(nil), l.b.Bytes()...)
}
func (l *lockedBuf) String() string { return string(l.Bytes()) }
func (l *lockedBuf) Len() int {
	l.mu.Lock()
	defer l.mu.Unlock()
	return l.b.Len()
}

type plainWriter struct{ w *lockedBuf }

func (p plainWriter) Write(b []byte) (int, error) { return p.w.Write(b) }

// flakyWriter refuses its failAt-th Write call (nothing accepted, an error returned)
// and passes every other call on.
type flakyWriter struct {
	w       *lockedBuf
	calls   int
	failAt  int
	failed  bool
	failPos int    // bytes accepted before the refused call
	refused []byte // what the refused call offered
}

type errTransient struct{}

func (errTransient) Error() string { return "resource temporarily unavailable" }

func (f *flakyWriter) Write(b []byte) (int, error) {
	f.calls++
	if f.calls == f.failAt {
		f.failed = true
		f.failPos = f.w.Len()
		f.refused = append([]byte(nil), b...)
		return 0, errTransient{}
	}
	return f.w.Write(b)
}

// stepBounded drives the CPU with Step under Run's stop rule (C08 shows the two
// to be the same) with a Step budget.
func stepBounded(cpu *z80.CPU, maxSteps int) error {
	cpu.HALT = false
	for i := 0; i < maxSteps; i++ {
		cpu.Step()
		if cpu.BreakPoints != nil {
			if _, ok := cpu.BreakPoints[cpu.PC]; ok {
				return z80.ErrBreakPoint
			}
		}
		if cpu.HALT {
			return nil
		}
	}
	panic(errBudget{})
}

// runBounded is cpu.Run with a logical Step budget enforced through the
// memory interface is not possible on tinycpm.Memory (not ours), so it drives
// Step under the stop rule of C08 (which C08 shows to be what Run does) when
// the budget matters, and uses Run itself for the common path.
func runBounded(cpu *z80.CPU, maxSteps int) error {
	directRunMu.Lock()
	direct := directRun[cpu]
	directRunMu.Unlock()
	if direct {
		// tinycpm.Memory handed to Run as it is (no wrapper hiding its type); only a
		// generous wall-clock guard is possible here and its firing is inconclusive
		ctx, cancel := context.WithTimeout(context.Background(), 20*time.Second)
		defer cancel()
		err := cpu.Run(ctx)
		if err == context.DeadlineExceeded {
			panic(errStuck{})
		}
		return err
	}
	// Use Run via a watchdog memory wrapper
	w := &budgetMem{inner: cpu.Memory, left: maxSteps * 6}
	cpu.Memory = w
	defer func() { cpu.Memory = w.inner }()
	return cpu.Run(context.Background())
}

type budgetMem struct {
	inner z80.Memory
	left  int
}

func (m *budgetMem) Get(a uint16) uint8 {
	m.left--
	if m.left < 0 {
		panic(errBudget{})
	}
	return m.inner.Get(a)
}
func (m *budgetMem) Set(a uint16, v uint8) {
	m.left--
	if m.left < 0 {
		panic(errBudget{})
	}
	m.inner.Set(a, v)
}
