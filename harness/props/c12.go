package props

import (
	"context"
	"encoding/json"
	"fmt"
	"math"
	"os"
	"os/exec"
	"strconv"
	"strings"
	"sync"
	"sync/atomic"
	"time"

	"github.com/koron-go/z80"
	"github.com/koron-go/z80/verif/mon"
)

func init() {
	register("C12", "exploration", runC12)
	workerFns["c12"] = c12Worker
}

// countMem wraps any z80.Memory with an access counter and a logical budget.
type countMem struct {
	inner  z80.Memory
	count  uint64
	budget uint64
	log    []mon.Access
	logOn  bool
	hook   func(n uint64)
}

func (m *countMem) tick(a mon.Access) {
	m.count++
	if m.logOn {
		m.log = append(m.log, a)
	}
	if m.hook != nil {
		m.hook(m.count)
	}
	if m.budget != 0 && m.count > m.budget {
		panic(mon.BudgetExceeded{Count: m.count})
	}
}
func (m *countMem) Get(a uint16) uint8 {
	v := m.inner.Get(a)
	m.tick(mon.Access{Kind: 'R', Addr: a, Val: v})
	return v
}
func (m *countMem) Set(a uint16, v uint8) {
	m.inner.Set(a, v)
	m.tick(mon.Access{Kind: 'W', Addr: a, Val: v})
}

type arrayMem struct{ d [65536]uint8 }

func (m *arrayMem) Get(a uint16) uint8    { return m.d[a] }
func (m *arrayMem) Set(a uint16, v uint8) { m.d[a] = v }

type c12Viol struct {
	Sig     string                 `json:"sig"`
	Witness map[string]interface{} `json:"witness"`
}

type c12Result struct {
	Cases         int64            `json:"cases"`
	Steps         int64            `json:"steps"`
	Runs          int64            `json:"runs"`
	RunsHalted    int64            `json:"runs_halted"`
	InvalidSteps  int64            `json:"invalid_steps_checked"`
	Panics        int64            `json:"panics"`
	WatchdogTrips int64            `json:"watchdog_trips"`
	Openings      int64            `json:"openings"`
	Classes       map[string]int64 `json:"classes"`
	Viol          []c12Viol        `json:"viol"`
	Samples       []interface{}    `json:"samples"`
	Done          bool             `json:"done"`
}

var c12MemLens = []int{0, 1, 2, 255, 256, 4096, 65535, 65536}
var c12IOLens = []int{-1, 0, 1, 128, 256} // -1: nil IO
var c12IMs = []int{0, 1, 2, -1, 3, math.MaxInt, math.MinInt, 256, 1 << 32}

// structure-aware program bytes
func c12Bytes(r *mon.Rng, n int) []uint8 {
	b := make([]uint8, n)
	switch r.Intn(6) {
	case 0: // prefix storm
		pf := []uint8{0xdd, 0xfd, 0xed, 0xcb}
		for i := range b {
			b[i] = pf[r.Intn(len(pf))]
		}
		if r.Bool() {
			b[n-1] = r.U8()
		}
	case 1: // single prefix byte everywhere
		v := []uint8{0xdd, 0xfd, 0xed, 0xcb, 0x76, 0x10, 0xff}[r.Intn(7)]
		for i := range b {
			b[i] = v
		}
	case 2: // prefixes followed by random opcodes
		for i := range b {
			if r.Intn(3) == 0 {
				b[i] = []uint8{0xdd, 0xfd, 0xed, 0xcb}[r.Intn(4)]
			} else {
				b[i] = r.U8()
			}
		}
	default:
		for i := range b {
			b[i] = r.U8()
		}
	}
	return b
}

func c12Interrupt(r *mon.Rng) *z80.Interrupt {
	var it z80.Interrupt
	switch r.Intn(6) {
	case 0:
		it.Type = z80.NMIType
	case 1, 2, 3:
		it.Type = z80.IMType
	case 4:
		it.Type = z80.InterruptType(2 + r.Intn(5))
	case 5:
		it.Type = z80.InterruptType(-1 - r.Intn(3))
	}
	switch r.Intn(5) {
	case 0:
		it.Data = nil
	case 1:
		it.Data = []uint8{}
	default:
		it.Data = c12Bytes(r, 1+r.Intn(8))
		if r.Intn(3) == 0 {
			it.Data[0] = []uint8{0xc7, 0xff, 0xcd, 0xdd, 0xed, 0xcb, 0x76, 0xfb, 0xed}[r.Intn(9)]
		}
	}
	return &it
}

type c12State struct {
	res      *c12Result
	seed     uint64
	lc       *mon.LogCapture
	am       *arrayMem
	cur      atomic.Int64 // case index in progress (for the no-progress monitor)
	progress atomic.Int64
}

func (st *c12State) viol(sig string, w map[string]interface{}) {
	if len(st.res.Viol) < 40 {
		st.res.Viol = append(st.res.Viol, c12Viol{sig, w})
	}
}

func (st *c12State) class(s string) { st.res.Classes[s]++ }

// caseOpening: one Step of a two-byte opening on a 64 KiB array with the log
// monitor attached.
// c12OpeningInput regenerates the input of opening case i (pure function of
// seed and index): pre-state and instruction bytes.
func c12OpeningInput(seed uint64, i int64) (z80.States, []uint8) {
	r := mon.NewRng(mon.Hash(seed, uint64(i), 0xC12A))
	op := uint16(i % 65536)
	pre := RandStates(r)
	if r.Intn(4) == 0 {
		pre.PC = 0xfffc + uint16(r.Intn(4))
	}
	tail := c12Bytes(r, 6)
	bs := append([]uint8{uint8(op >> 8), uint8(op)}, tail...)
	if (i/65536)%4 == 3 {
		bs = append([]uint8{[]uint8{0xdd, 0xfd}[(op>>8)&1], 0xcb, uint8(op >> 9), uint8(op)}, tail...)
	}
	return pre, bs
}

func (st *c12State) caseOpening(i int64) {
	r := mon.NewRng(mon.Hash(st.seed, uint64(i), 0xC12A))
	op := uint16(i % 65536)
	if st.am == nil {
		st.am = &arrayMem{}
	}
	am := st.am
	mem := &countMem{inner: am, logOn: true, budget: 64}
	var touched []uint16
	defer func() {
		for _, a := range touched {
			am.d[a] = 0
		}
		for _, a := range mem.log {
			am.d[a.Addr] = 0
		}
	}()
	pre := RandStates(r)
	if r.Intn(4) == 0 {
		pre.PC = 0xfffc + uint16(r.Intn(4)) // instruction cut at FFFF
	}
	tail := c12Bytes(r, 6)
	bs := append([]uint8{uint8(op >> 8), uint8(op)}, tail...)
	if (i/65536)%4 == 3 {
		// four-byte openings DD/FD CB d xx: all 2 x 256 fourth bytes, d = low byte
		bs = append([]uint8{[]uint8{0xdd, 0xfd}[(op>>8)&1], 0xcb, uint8(op >> 9), uint8(op)}, tail...)
	}
	// random fill of some other bytes
	for k := 0; k < 64; k++ {
		a := r.U16()
		am.d[a] = r.U8()
		touched = append(touched, a)
	}
	for k, b := range bs { // the instruction wins over the random fill
		am.d[pre.PC+uint16(k)] = b
		touched = append(touched, pre.PC+uint16(k))
	}
	io := &mon.IO{Seed: r.U64()}
	cpu := z80.CPU{States: pre, Memory: mem, IO: io}
	before := st.lc.Lines()
	var pan interface{}
	func() {
		defer func() { pan = recover() }()
		cpu.Step()
	}()
	st.res.Steps++
	st.res.Openings++
	w := func(what string) map[string]interface{} {
		return map[string]interface{}{"what": what, "bytes": HexBytes(bs), "pre": DumpState(&pre, false),
			"post": DumpState(&cpu.States, cpu.HALT), "bus": DumpAccesses(mem.log), "case": i, "kind": "opening"}
	}
	if pan != nil {
		if _, isB := pan.(mon.BudgetExceeded); isB {
			st.res.WatchdogTrips++
			st.viol("C12/opening/step-does-not-return", w("a single Step made more than 64 bus accesses"))
		} else {
			st.res.Panics++
			st.viol("C12/opening/panic", w(fmt.Sprintf("panic: %v", pan)))
		}
		return
	}
	if st.lc.Lines() != before {
		// unsupported opcode: consumed, execution continues with the next byte
		st.res.InvalidSteps++
		n := len(mem.log)
		ok := n >= 1 && n <= 4
		for k, a := range mem.log {
			if a.Kind != 'R' || a.Addr != pre.PC+uint16(k) {
				ok = false
			}
		}
		post := Arch(cpu.States)
		exp := pre
		exp.PC = pre.PC + uint16(n)
		exp.IR.Lo = post.IR.Lo
		if !ok || post != exp || len(io.Log) != 0 || cpu.HALT {
			st.viol("C12/opening/invalid-opcode-not-just-consumed", w("an unsupported opcode must only be consumed: PC past the bytes fetched, nothing else changed"))
		}
	}
	if i%9973 == 0 && len(st.res.Samples) < 3 {
		st.res.Samples = append(st.res.Samples, map[string]interface{}{"kind": "opening", "bytes": HexBytes(bs), "pc": h16(pre.PC), "bus": DumpAccesses(mem.log)})
	}
}

// caseConfig: up to 48 Steps of arbitrary bytes on an arbitrary configuration.
func (st *c12State) caseConfig(i int64) {
	r := mon.NewRng(mon.Hash(st.seed, uint64(i), 0xC12B))
	memKind := r.Intn(10)
	var inner z80.Memory
	mclass := ""
	prog := c12Bytes(r, 16+r.Intn(48))
	pre := RandStates(r)
	switch r.Intn(5) {
	case 0:
		pre.PC = 0xffff - uint16(r.Intn(6))
	case 1:
		pre.PC = uint16(r.Intn(4))
	}
	switch {
	case memKind < 3:
		am := &arrayMem{}
		for k := range am.d {
			am.d[k] = uint8(mon.Mix(uint64(k)^st.seed^uint64(i)) >> 17)
		}
		if r.Intn(3) == 0 {
			v := []uint8{0xdd, 0xfd, 0xed, 0xcb, 0x00, 0xff}[r.Intn(6)]
			for k := range am.d {
				am.d[k] = v
			}
		}
		for k, b := range prog {
			am.d[pre.PC+uint16(k)] = b
		}
		inner = am
		mclass = "array64K"
	case memKind < 8:
		ln := c12MemLens[r.Intn(len(c12MemLens))]
		dm := make(z80.DumbMemory, ln)
		for k := range dm {
			dm[k] = r.U8()
		}
		if ln > 0 {
			// put the program near the end of the short memory so that it is cut off
			switch r.Intn(3) {
			case 0:
				pre.PC = uint16(ln - 1 - r.Intn(minInt(ln, 4)))
			case 1:
				pre.PC = uint16(ln - 1)
			}
		}
		for k, b := range prog {
			dm.Set(pre.PC+uint16(k), b)
		}
		inner = dm
		mclass = fmt.Sprintf("DumbMemory[%d]", ln)
	default:
		mm := z80.MapMemory{}
		if r.Bool() {
			mm.Put(pre.PC, prog...)
		}
		inner = mm
		mclass = "MapMemory"
	}
	mem := &countMem{inner: inner, budget: 64}
	// half of the cases hand the bundled memory type to the CPU directly (no
	// monitor in between), as a user would: type-specific fast paths are then
	// reachable; the bus-access watchdog is not available there
	direct := i%2 == 0 && memKind >= 3 // only the bundled types; the harness's own array stays monitored
	ioLen := c12IOLens[r.Intn(len(c12IOLens))]
	var io z80.IO
	iclass := "nilIO"
	if ioLen >= 0 {
		io = make(z80.DumbIO, ioLen)
		iclass = fmt.Sprintf("DumbIO[%d]", ioLen)
	}
	if r.Intn(3) == 0 {
		pre.IM = c12IMs[r.Intn(len(c12IMs))]
	}
	cpu := z80.CPU{States: pre, Memory: mem, IO: io}
	if direct {
		cpu.Memory = inner
		mclass += "(direct)"
	}
	var rc mon.RetCounter
	if r.Bool() {
		hn, hi := rc.Handlers()
		cpu.RETNHandler, cpu.RETIHandler = hn, hi
	}
	intClass := "no-request"
	injectAt := -1
	injectAgain := [2]int{-1, -1}
	enableAtInject := false
	var it *z80.Interrupt
	if r.Intn(2) == 0 {
		it = c12Interrupt(r)
		injectAt = r.Intn(12)
		if r.Intn(2) == 0 {
			// the same device interrupts again later on the same CPU
			injectAgain[0] = injectAt + 1 + r.Intn(6)
			injectAgain[1] = injectAgain[0] + 1 + r.Intn(6)
			enableAtInject = true
			if pre.IM < 0 || pre.IM > 2 || r.Bool() {
				pre.IM = r.Intn(3)
			}
		}
		tb := "type-out-of-range"
		if it.Type == z80.NMIType {
			tb = "NMI"
		} else if it.Type == z80.IMType {
			tb = "INT"
		}
		lb := "data=0"
		switch {
		case len(it.Data) == 1:
			lb = "data=1"
		case len(it.Data) > 3:
			lb = "data>3"
		case len(it.Data) > 1:
			lb = "data=2..3"
		}
		intClass = "request(" + tb + "," + lb + ")"
	}
	// a request raised from inside a memory callback (mid-Step)
	if !direct && r.Intn(4) == 0 {
		at := uint64(1 + r.Intn(40))
		it2 := c12Interrupt(r)
		storm := r.Intn(4) == 0 // the device raises the request again on every later access (e.g. a write trap wired to NMI)
		fresh := storm && r.Bool() // a NEW request object every time (a board that reports every access fault by NMI)
		mem.hook = func(n uint64) {
			if n == at || (storm && n > at) {
				cpu.Interrupt = it2
				if fresh {
					cpu.Interrupt = z80.NMIInterrupt()
				}
			}
		}
		intClass += "+callback-raised"
		if storm {
			intClass += "(storm)"
		}
		if fresh {
			intClass += "(fresh NMI object each time)"
		}
	}
	st.class(mclass)
	st.class(iclass)
	st.class(intClass)
	if enableAtInject {
		st.class("request-repeated-3x-with-IFF1-set")
	}
	if pre.IM < 0 || pre.IM > 2 {
		st.class("IM-out-of-range")
	}
	nsteps := 8 + r.Intn(40)
	var pan interface{}
	done := 0
	func() {
		defer func() { pan = recover() }()
		for s := 0; s < nsteps; s++ {
			if s == injectAt || s == injectAgain[0] || s == injectAgain[1] {
				cpu.Interrupt = it
				if enableAtInject {
					cpu.IFF1 = true
				}
			}
			mem.budget = mem.count + 64
			cpu.Step()
			done++
		}
	}()
	st.res.Steps += int64(done)
	if pan != nil {
		w := map[string]interface{}{"program": HexBytes(prog), "pre": DumpState(&pre, false), "state_at_failure": DumpState(&cpu.States, cpu.HALT),
			"memory": mclass, "io": iclass, "request": intClass, "step": done, "case": i, "kind": "config", "IM": strconv.Itoa(pre.IM)}
		if it != nil {
			w["request_type"] = int(it.Type)
			w["request_data"] = HexBytes(it.Data)
			w["inject_at_step"] = injectAt
		}
		if _, isB := pan.(mon.BudgetExceeded); isB {
			st.res.WatchdogTrips++
			w["what"] = "a single Step made more than 64 bus accesses"
			st.viol("C12/config/step-does-not-return", w)
		} else {
			st.res.Panics++
			w["what"] = fmt.Sprintf("panic: %v", pan)
			st.viol("C12/config/panic", w)
		}
	}
	if i%7919 == 0 && len(st.res.Samples) < 6 {
		st.res.Samples = append(st.res.Samples, map[string]interface{}{"kind": "config", "memory": mclass, "io": iclass, "request": intClass,
			"IM": strconv.Itoa(pre.IM), "program_head": HexBytes(prog[:8]), "steps": done})
	}
}

func minInt(a, b int) int {
	if a < b {
		return a
	}
	return b
}

// caseRun: Run on a program that a Step-driven twin shows to execute a HALT
// opcode; Run must return within the twin-derived access budget.
// caseParallel: several CPUs, each with its own memory, Stepped from their own
// goroutines over byte soup dense with unsupported encodings.  Anything the
// CPUs share behind the scenes (a package-level table, a scratch buffer, a
// warn-once map) is hit from all of them at once; a Go runtime "fatal error"
// (concurrent map access) ends the worker process and is reported by the parent.
func (st *c12State) caseParallel(i int64) {
	r := mon.NewRng(mon.Hash(st.seed, uint64(i), 0xC12D))
	const ncpu = 4
	var wg sync.WaitGroup
	pans := make([]interface{}, ncpu)
	for g := 0; g < ncpu; g++ {
		mem := make(z80.DumbMemory, 65536)
		// all unsupported DD/FD/ED/DDCB/FDCB openings in an order of its own per CPU
		rr := mon.NewRng(r.U64())
		for a := 0; a+4 <= len(mem); a += 4 {
			pf := []uint8{0xdd, 0xfd, 0xed}[rr.Intn(3)]
			if rr.Intn(3) == 0 {
				mem[a], mem[a+1], mem[a+2], mem[a+3] = pf, 0xcb, rr.U8(), rr.U8()
				if pf == 0xed {
					mem[a+1] = rr.U8()
				}
			} else {
				mem[a], mem[a+1], mem[a+2], mem[a+3] = pf, rr.U8(), 0x00, 0x00
			}
		}
		cpu := &z80.CPU{Memory: mem}
		cpu.SP = 0x8000
		wg.Add(1)
		go func(g int) {
			defer wg.Done()
			defer func() { pans[g] = recover() }()
			for k := 0; k < 3000; k++ {
				cpu.Step()
				cpu.HALT = false
			}
		}(g)
	}
	wg.Wait()
	st.res.Steps += ncpu * 3000
	for g, p := range pans {
		if p != nil {
			st.res.Panics++
			st.viol("C12/parallel/panic", map[string]interface{}{"what": fmt.Sprintf("panic: %v", p), "case": i, "kind": "parallel", "cpu": g})
		}
	}
	st.class("parallel:4-cpus-over-unsupported-encodings")
}

func (st *c12State) caseRun(i int64) {
	if i%16 == 5 {
		st.caseParallel(i)
		return
	}
	r := mon.NewRng(mon.Hash(st.seed, uint64(i), 0xC12C))
	o := GenOpts{Base: 0x0100, MinBlocks: 1, MaxBlocks: 12, IM: r.Intn(3), Invalid: true, NoEI: r.Intn(3) == 0}
	p := GenProgram(r, o)
	fill := r.U64()
	mk := func() (*mon.Mem, *mon.IO, *z80.CPU) {
		m := &mon.Mem{}
		m.Fill(fill)
		p.Install(m)
		io := &mon.IO{Seed: fill}
		cpu := &z80.CPU{States: p.Init, Memory: m, IO: io}
		return m, io, cpu
	}
	weirdIM := r.Intn(5) == 0
	// requests: pending from the start, raised by callbacks, masked, any type
	var pend *z80.Interrupt
	if r.Intn(2) == 0 {
		pend = c12Interrupt(r)
		if r.Bool() {
			// a well-formed maskable request that stays masked when NoEI
			pend = []*z80.Interrupt{z80.IM1Interrupt(), z80.IM2Interrupt(uint8(r.Intn(128) * 2)), z80.IM0Interrupt(0xff)}[r.Intn(3)]
		}
	}
	raiseAt := uint64(0)
	if r.Intn(3) == 0 {
		raiseAt = uint64(10 + r.Intn(200))
	}
	var bps map[uint16]struct{}
	if r.Intn(3) == 0 {
		bps = map[uint16]struct{}{r.U16(): {}, p.HaltAddr: {}}
		if r.Bool() {
			delete(bps, p.HaltAddr)
		}
	}
	setup := func(m *mon.Mem, cpu *z80.CPU) {
		if pend != nil {
			cpu.Interrupt = copyIntr(pend)
		}
		if raiseAt > 0 {
			m.Hook = func(mm *mon.Mem, a mon.Access) {
				if mm.Count == raiseAt {
					cpu.Interrupt = z80.IM1Interrupt()
				}
			}
		}
		cpu.BreakPoints = bps
	}
	// twin: Step-driven; independent notion of "the program halts": a HALT
	// opcode was executed (fetched at PC, PC stays)
	mt, _, twin := mk()
	setup(mt, twin)
	// the weird IM is patched in after the prologue's IM instruction: emulate by
	// overriding IM right before the final HALT is reached is not possible from
	// outside, so it is set in the initial state and the prologue's IM op is NOPed
	if weirdIM {
		wim := c12IMs[3+r.Intn(len(c12IMs)-3)]
		p.Init.IM = wim
		twin.IM = wim
		mt.Place(p.Base+3, 0x00, 0x00)
	}
	mt.Logging = true
	halted := false
	stopBP := false
	var tsteps int
	var tpan interface{}
	func() {
		defer func() { tpan = recover() }()
		for tsteps = 0; tsteps < 20000; tsteps++ {
			mt.ClearLog()
			pc := twin.PC
			hadReq := twin.Interrupt
			twin.Step()
			accepted := hadReq != nil && twin.Interrupt != hadReq
			if _, hit := bps[twin.PC]; hit && bps != nil {
				stopBP = true
				tsteps++
				break
			}
			if !accepted && len(mt.Log) > 0 && mt.Log[0].Kind == 'R' && mt.Log[0].Addr == pc && mt.Log[0].Val == 0x76 && twin.PC == pc {
				halted = true
				tsteps++
				break
			}
		}
	}()
	st.res.Steps += int64(tsteps)
	if tpan != nil {
		st.res.Panics++
		st.viol("C12/run/panic-in-step", map[string]interface{}{"what": fmt.Sprintf("panic: %v", tpan), "code": HexBytes(p.Code), "case": i, "kind": "run"})
		return
	}
	if !halted && !stopBP {
		st.class("run:program-does-not-halt(no verdict)")
		return
	}
	mr, _, run := mk()
	setup(mr, run)
	if weirdIM {
		run.IM = p.Init.IM
		mr.Place(p.Base+3, 0x00, 0x00)
	}
	mr.Budget = 2*mt.Count + 64
	// the context Run gets: background, live and cancellable, already cancelled, or
	// cancelled by the device while the final HALT opcode is being fetched.  Run must
	// RETURN in every case (with nil or with that context's error).
	ctx, cancel := context.Background(), context.CancelFunc(func() {})
	ctxKind := r.Intn(5)
	switch ctxKind {
	case 1:
		ctx, cancel = context.WithCancel(ctx)
	case 2:
		ctx, cancel = context.WithCancel(ctx)
		cancel()
	case 3:
		ctx, cancel = context.WithCancel(ctx)
		inner := mr.Hook
		mr.Hook = func(mm *mon.Mem, a mon.Access) {
			if inner != nil {
				inner(mm, a)
			}
			if a.Kind == 'R' && a.Val == 0x76 && a.Addr == run.PC {
				cancel()
			}
		}
	case 4:
		var c2 context.CancelFunc
		ctx, c2 = context.WithDeadline(ctx, time.Unix(0, 0)) // a deadline long past
		cancel = c2
	}
	var rerr error
	var pan interface{}
	func() {
		defer func() { pan = recover() }()
		rerr = run.Run(ctx)
	}()
	ctxErr := ctx.Err()
	cancel()
	st.res.Runs++
	w := func(what string) map[string]interface{} {
		return map[string]interface{}{"what": what, "code": HexBytes(p.Code), "halt_addr": h16(p.HaltAddr), "case": i, "kind": "run",
			"twin_steps": tsteps, "twin_accesses": mt.Count, "run_accesses": mr.Count, "IM": strconv.Itoa(run.IM), "no_EI": o.NoEI,
			"pending_at_start": pend != nil, "callback_raise_at": raiseAt, "run_state": DumpState(&run.States, run.HALT), "twin_state": DumpState(&twin.States, twin.HALT)}
	}
	switch {
	case pan != nil:
		if _, isB := pan.(mon.BudgetExceeded); isB {
			st.res.WatchdogTrips++
			st.viol("C12/run/does-not-return", w("the program executes a HALT opcode (Step-driven twin) but Run does not return within twice the twin's bus accesses"))
		} else {
			st.res.Panics++
			st.viol("C12/run/panic", w(fmt.Sprintf("panic: %v", pan)))
		}
	case rerr != nil && ctxErr != nil && rerr == ctxErr:
		st.class("run:returned-the-cancelled-context's-error")
	case halted && rerr != nil:
		st.viol("C12/run/error-instead-of-halt", w(fmt.Sprintf("Run returned %v although the program halted", rerr)))
	default:
		if halted {
			st.res.RunsHalted++
			st.class("run:halted")
		} else {
			st.class("run:breakpoint")
		}
		if pend != nil {
			st.class("run:request-pending-from-start")
		}
		if o.NoEI {
			st.class("run:interrupts-never-enabled")
		}
		if weirdIM {
			st.class("run:IM-out-of-range")
		}
		st.class([]string{"run:ctx-background", "run:ctx-live", "run:ctx-already-cancelled", "run:ctx-cancelled-during-the-HALT-fetch", "run:ctx-deadline-long-past"}[ctxKind])
	}
}

// c12Plan: how many cases of each kind (tier dependent).
func c12Plan(tier string) (openings, configs, runs int64) {
	scale := 1.0
	if s := os.Getenv("VERIF_SCALE"); s != "" {
		if f, err := strconv.ParseFloat(s, 64); err == nil && f > 0 {
			scale = f
		}
	}
	if tier == "thorough" {
		return int64(65536 * 64 * scale), int64(16_000_000 * scale), int64(1_000_000 * scale)
	}
	return int64(65536 * 4 * scale), int64(120_000 * scale), int64(6_000 * scale)
}

// worker spec: seed:tier:shard:nshards:from:slow:outpath
func c12Worker(spec string) int {
	f := strings.Split(spec, ":")
	if len(f) < 7 {
		return 2
	}
	seed, _ := strconv.ParseUint(f[0], 10, 64)
	tier := f[1]
	shard, _ := strconv.ParseInt(f[2], 10, 64)
	nshards, _ := strconv.ParseInt(f[3], 10, 64)
	from, _ := strconv.ParseInt(f[4], 10, 64)
	slow := f[5] == "1"
	out := strings.Join(f[6:], ":")
	st := &c12State{res: &c12Result{Classes: map[string]int64{}}, seed: seed}
	st.lc = mon.CaptureStdLog()
	no, nc, nr := c12Plan(tier)
	total := no + nc + nr
	writeProgress := func(i int64) {
		os.WriteFile(out+".progress", []byte(strconv.FormatInt(i, 10)), 0o644)
	}
	// no-progress monitor: a Step that neither returns nor touches the bus
	go func() {
		last := int64(-1)
		stuck := 0
		for {
			time.Sleep(2 * time.Second)
			p := st.progress.Load()
			if p == last {
				stuck++
			} else {
				stuck = 0
				last = p
			}
			if stuck >= 10 {
				writeProgress(st.cur.Load())
				os.WriteFile(out+".stuck", []byte(strconv.FormatInt(st.cur.Load(), 10)), 0o644)
				os.Exit(7)
			}
		}
	}()
	n := int64(0)
	for i := from; i < total; i++ {
		if i%nshards != shard {
			continue
		}
		st.cur.Store(i)
		if slow || n%4096 == 0 {
			writeProgress(i)
		}
		switch {
		case i < no:
			st.caseOpening(i)
		case i < no+nc:
			st.caseConfig(i - no)
		default:
			st.caseRun(i - no - nc)
		}
		st.res.Cases++
		st.progress.Add(1)
		n++
		st.lc.ResetText()
		if slow && n >= 4200 {
			break
		}
	}
	st.res.Done = true
	b, _ := json.Marshal(st.res)
	if err := os.WriteFile(out, b, 0o644); err != nil {
		return 2
	}
	return 0
}

// C12 — totality.  Parent: spawns crash-isolated workers and aggregates.
func runC12(c *Ctx) {
	nshards := int64(Workers())
	var mu sync.Mutex
	total := c12Result{Classes: map[string]int64{}}
	abnormal := 0
	var wg sync.WaitGroup
	for sh := int64(0); sh < nshards; sh++ {
		wg.Add(1)
		go func(sh int64) {
			defer wg.Done()
			from := int64(0)
			for attempt := 0; attempt < 6; attempt++ {
				out := fmt.Sprintf("%s/c12-%d-%d.json", c.Tmp, sh, attempt)
				slow := "0"
				if attempt > 0 {
					slow = "1"
				}
				spec := fmt.Sprintf("c12:%d:%s:%d:%d:%d:%s:%s", c.Seed, c.Tier, sh, nshards, from, slow, out)
				cmd := exec.Command(c.Self, "-worker", spec)
				logf, _ := os.Create(out + ".log")
				cmd.Stdout, cmd.Stderr = logf, logf
				err := cmd.Run()
				logf.Close()
				var res c12Result
				if b, rerr := os.ReadFile(out); rerr == nil {
					json.Unmarshal(b, &res)
				}
				if err == nil && res.Done {
					mu.Lock()
					total.Cases += res.Cases
					total.Steps += res.Steps
					total.Runs += res.Runs
					total.RunsHalted += res.RunsHalted
					total.InvalidSteps += res.InvalidSteps
					total.Panics += res.Panics
					total.WatchdogTrips += res.WatchdogTrips
					total.Openings += res.Openings
					for k, v := range res.Classes {
						total.Classes[k] += v
					}
					total.Viol = append(total.Viol, res.Viol...)
					if len(total.Samples) < 8 {
						total.Samples = append(total.Samples, res.Samples...)
					}
					mu.Unlock()
					if attempt == 0 {
						return
					}
					// slow window finished without dying: resume fast after it
					pb, _ := os.ReadFile(out + ".progress")
					last, _ := strconv.ParseInt(strings.TrimSpace(string(pb)), 10, 64)
					from = last + 1
					no, nc, nr := c12Plan(c.Tier)
					if from >= no+nc+nr {
						return
					}
					continue
				}
				// abnormal exit: fatal error, unrecovered panic, or no progress
				mu.Lock()
				abnormal++
				mu.Unlock()
				pb, _ := os.ReadFile(out + ".progress")
				last, _ := strconv.ParseInt(strings.TrimSpace(string(pb)), 10, 64)
				lb, _ := os.ReadFile(out + ".log")
				tail := string(lb)
				if len(tail) > 1500 {
					tail = tail[:1500]
				}
				if attempt > 0 || slow == "1" {
					// slow mode records the index before each case: `last` is the crashing input
					kind := "fatal error / unrecovered panic kills the process"
					if _, serr := os.Stat(out + ".stuck"); serr == nil {
						kind = "a Step/Run neither returns nor touches the bus for 20 s, twice in a row on this input (fast pass and the per-case re-run)"
					}
					desc := map[string]interface{}{"kind": "config or run case (regenerate with the replay command)"}
					if no, _, _ := c12Plan(c.Tier); last < no {
						pre, bs := c12OpeningInput(uint64(c.Seed), last)
						desc = map[string]interface{}{"kind": "opening", "bytes": HexBytes(bs), "pre": DumpState(&pre, false)}
					}
					c.R.Violation("C12/worker-died", map[string]interface{}{"what": kind, "case_index": last, "shard": sh, "seed": c.Seed, "input": desc,
						"replay": fmt.Sprintf("vcheck -worker c12:%d:%s:%d:%d:%d:1:/tmp/out.json", c.Seed, c.Tier, sh, nshards, last), "output": tail})
					from = last + nshards
					continue
				}
				from = last // re-run the window in slow mode
			}
		}(sh)
	}
	wg.Wait()
	seenSig := map[string]int{}
	for _, v := range total.Viol {
		seenSig[v.Sig]++
		c.R.Violation(v.Sig, v.Witness)
	}
	for _, s := range total.Samples {
		c.R.Sample(s)
	}
	distinct := total.Openings + total.Cases - total.Openings // every case index is a distinct (seed, index) input
	c.R.Set("evaluations", total.Cases)
	c.R.Set("distinct_nontrivial", distinct)
	c.R.Set("steps", total.Steps)
	c.R.Set("two_byte_openings_executed", total.Openings)
	c.R.Set("run_calls", total.Runs)
	c.R.Set("run_calls_on_halting_programs", total.RunsHalted)
	c.R.Set("invalid_steps_checked", total.InvalidSteps)
	c.R.Set("panics", total.Panics)
	c.R.Set("watchdog_trips", total.WatchdogTrips)
	c.R.Set("worker_processes_died", int64(abnormal))
	c.R.Set("configuration_classes", total.Classes)
	c.R.Set("worker_processes", nshards)
	c.R.Set("exhaustive", false)
	c.R.Set("exhaustive_over", "all 65536 two-byte openings (each with several random tails/states)")
	c.R.Set("rule", "crash-isolated worker processes, every case a pure function of (seed, index): (a) all 65536 two-byte openings x random tails and states (PC at FFFC..FFFF in 1/4) as single Steps with the log monitor: no panic, <= 64 bus accesses, an 'invalid code' Step only consumes the bytes it fetched; (b) arbitrary byte programs (prefix storms, single-prefix fills, random) for 8..48 Steps on {64 KiB array, DumbMemory of length 0,1,2,255,256,4096,65535,65536 with the program cut off at its end, MapMemory} x {nil IO, DumbIO of length 0,1,128,256} x arbitrary States (IM in {-1,3,MaxInt,MinInt,256,2^32}) x Interrupt values of any Type with nil/empty/1..8 data bytes injected at a random Step (in half of those cases three times on the same CPU with IFF1 forced on, so that several requests are really accepted), at PC=FFFF, and from inside memory callbacks; (c) Run on generated programs (interrupts never enabled, requests pending from the start or raised by callbacks, IM out of range, breakpoints): whenever a Step-driven twin executes a HALT opcode, Run must return within twice the twin's bus accesses - under a background, a live, an already cancelled, a long-expired and a cancelled-during-the-HALT-fetch context alike (nil or that context's error); every 16th run case Steps 4 CPUs from 4 goroutines over all kinds of unsupported encodings at once. Logical watchdogs only; a child that dies is re-run in a mode that records the index before each case. Each case index is a distinct input; all are counted")
	c.R.Assume("a nil map as MapMemory is the caller's error and is not exercised")
	if total.Cases == 0 {
		c.R.Inconclusive("no cases executed")
	}
}
