package props

// Registry maps property ids to their check functions.
var Registry = map[string]func(*Ctx){}

// Levels is the evidence "level" each check reports (MANIFEST level_claimed).
var Levels = map[string]string{}

func register(id, level string, fn func(*Ctx)) {
	Registry[id] = fn
	Levels[id] = level
}

// RunWorker is the entry point of crash-isolated child processes
// (vcheck -worker <spec>).  Installed by the checks that need it.
var workerFns = map[string]func(spec string) int{}

func RunWorker(spec string) int {
	// spec = "<kind>:<rest>"
	for i := 0; i < len(spec); i++ {
		if spec[i] == ':' {
			if fn, ok := workerFns[spec[:i]]; ok {
				return fn(spec[i+1:])
			}
			break
		}
	}
	return 2
}

// SingleStepReplay lists the properties whose witnesses are single Steps that
// vcheck -replay re-executes directly.
var SingleStepReplay = map[string]bool{"C01": true, "C05": true, "C14": true}
