package props

import (
	"context"
	"crypto/sha256"
	"encoding/hex"
	"fmt"
	"os"
	"os/exec"
	"path/filepath"
	"reflect"
	"strconv"
	"strings"

	"github.com/koron-go/z80"
	"github.com/koron-go/z80/internal/zex"
	"github.com/koron-go/z80/verif/mon"
)

func init() {
	register("C17", "exploration", runC17)
}

func repoDir() string {
	if d := os.Getenv("VERIF_REPO"); d != "" {
		return d
	}
	return "/repo"
}

// goRecord renders a Go table entry as the 65 record bytes of the image.
func goRecord(cs zex.Case) []byte {
	out := []byte{cs.FlagMask}
	out = append(out, cs.BaseCase.Bytes()...)
	out = append(out, cs.IncVec.Bytes()...)
	out = append(out, cs.ShiftVec.Bytes()...)
	e := uint32(cs.Expect)
	return append(out, uint8(e>>24), uint8(e>>16), uint8(e>>8), uint8(e))
}

// walkZex runs the canonical program on the emulator under test in a
// harness-owned mini environment and harvests, at every arrival at the
// program's test-dispatch routine, the record the program is about to use.
func walkZex(img []byte) (recs []ZexRecord, ended bool, note string) {
	mem := &mon.Mem{}
	mem.FillByte(0)
	mem.Place(cimLoad, img...)
	mem.Place(0x0000, 0x76)       // warm boot: HALT
	mem.Place(0x0005, 0xc9)       // BDOS: RET
	mem.Place(0x0006, 0x00, 0xf0) // top of memory word -> stack at F000
	// address of the dispatch routine: the CALL in the main loop (… dec hl ; call stt ; jp loop)
	stt := uint16(0)
	for off := 0; off+6 < 96 && off+6 < len(img); off++ {
		if img[off] == 0x2b && img[off+1] == 0xcd && img[off+4] == 0xc3 {
			stt = uint16(img[off+2]) | uint16(img[off+3])<<8
			break
		}
	}
	if stt == 0 {
		return nil, false, "call stt not found in the main loop"
	}
	cpu := &z80.CPU{States: z80.States{SPR: z80.SPR{PC: cimLoad}}, Memory: mem, BreakPoints: map[uint16]struct{}{stt: {}}}
	mem.Budget = 5_000_000
	defer func() {
		if p := recover(); p != nil {
			note = fmt.Sprintf("walk aborted: %v", p)
		}
	}()
	for n := 0; n < 1000; n++ {
		err := cpu.Run(context.Background())
		if err == nil {
			// halted: the program's own end-of-list test sent it to the warm boot
			return recs, cpu.PC == 0x0000, ""
		}
		if err != z80.ErrBreakPoint || cpu.PC != stt {
			return recs, false, fmt.Sprintf("unexpected stop: %v at %04X", err, cpu.PC)
		}
		// arrival: HL points at the pointer-table entry
		hl := cpu.HL.U16()
		ptr := uint16(mem.Data[hl]) | uint16(mem.Data[hl+1])<<8
		var raw [65]byte
		for i := range raw {
			raw[i] = mem.Data[ptr+uint16(i)]
		}
		var msg []byte
		for a := ptr + 65; mem.Data[a] != '$' && len(msg) < 200; a++ {
			msg = append(msg, mem.Data[a])
		}
		recs = append(recs, ZexRecord{Ptr: ptr, Mask: raw[0], Raw: hex.EncodeToString(raw[:]), RawMsg: hex.EncodeToString(msg),
			Msg: strings.TrimRight(string(msg), ".")})
		// skip the test itself: return to the caller with HL advanced to the next entry
		cpu.HL.SetU16(hl + 2)
		cpu.PC = uint16(mem.Data[cpu.SP]) | uint16(mem.Data[cpu.SP+1])<<8
		cpu.SP += 2
	}
	return recs, false, "more than 1000 arrivals"
}

// C17 — the Go exerciser tables are exactly the canonical zexdoc/zexall cases.
func runC17(c *Ctx) {
	mon.DiscardStdLog()
	var evals, fields, iterChecks int64
	tables := []struct {
		name  string
		cases []zex.Case
	}{{"zexdoc", zex.DocCases}, {"zexall", zex.AllCases}}
	for _, t := range tables {
		pins, err := LoadPins(t.name)
		if err != nil {
			c.R.Inconclusive("pins missing: " + err.Error())
			return
		}
		path := filepath.Join(repoDir(), "cmd/zexdoc", t.name+".cim")
		img, err := os.ReadFile(path)
		if err != nil {
			c.R.Violation("C17/"+t.name+"/image-missing", map[string]interface{}{"path": path, "error": err.Error()})
			continue
		}
		sum := sha256.Sum256(img)
		digest := hex.EncodeToString(sum[:])
		evals++
		if digest != pins.SHA256 {
			c.R.Violation("C17/"+t.name+"/image-not-canonical", map[string]interface{}{
				"what": "the program image is not the pristine canonical image", "sha256": digest, "pinned": pins.SHA256})
		}
		// (2a) records located by decoding `ld hl,tests`
		_, recs, perr := ParseZexImage(img)
		if perr != nil {
			c.R.Violation("C17/"+t.name+"/pointer-table", map[string]interface{}{"what": "cannot decode the test-pointer table of the image", "error": perr.Error()})
			continue
		}
		// (2b) records the program actually walks, on the emulator
		walked, ended, note := walkZex(img)
		walkOK := note == "" && ended
		c.R.Set(t.name+"_arrivals", int64(len(walked)))
		c.R.Set(t.name+"_walk_ended_at_warm_boot", ended)
		if !walkOK {
			c.R.Set(t.name+"_walk_inconclusive", note)
		} else {
			if len(walked) != len(recs) {
				c.R.Violation("C17/"+t.name+"/walk-count", map[string]interface{}{
					"what": "the program walks a different number of records than its pointer table lists", "walked": len(walked), "table": len(recs)})
			} else {
				for i := range walked {
					evals++
					if walked[i].Raw != recs[i].Raw || walked[i].RawMsg != recs[i].RawMsg || walked[i].Ptr != recs[i].Ptr {
						c.R.Violation("C17/"+t.name+"/walk-record", map[string]interface{}{"index": i, "walked": walked[i], "decoded": recs[i]})
					}
				}
			}
		}
		// (1) the tables as linked into this binary
		if len(recs) != 67 {
			c.R.Violation("C17/"+t.name+"/record-count", map[string]interface{}{"what": "the image does not list 67 cases", "records": len(recs)})
		}
		if len(t.cases) != len(recs) {
			c.R.Violation("C17/"+t.name+"/case-count", map[string]interface{}{
				"what": "the Go table and the image list a different number of cases", "go_cases": len(t.cases), "image_records": len(recs)})
		}
		seenDesc := map[string]int{}
		for i, cs := range t.cases {
			seenDesc[cs.Desc]++
			if i >= len(recs) {
				break
			}
			rec := recs[i]
			raw, _ := hex.DecodeString(rec.Raw)
			got := goRecord(cs)
			names := []string{"flag mask", "base vector", "increment vector", "shift vector", "expected CRC"}
			bounds := [][2]int{{0, 1}, {1, 21}, {21, 41}, {41, 61}, {61, 65}}
			for fi, b := range bounds {
				fields++
				evals++
				if hex.EncodeToString(got[b[0]:b[1]]) != hex.EncodeToString(raw[b[0]:b[1]]) {
					// first differing byte
					at := b[0]
					for at < b[1] && got[at] == raw[at] {
						at++
					}
					c.R.Violation(fmt.Sprintf("C17/%s/case-%d/%s", t.name, i, names[fi]), map[string]interface{}{
						"what": "Go table differs from the canonical record", "case": i, "image_desc": rec.Msg, "go_desc": cs.Desc, "field": names[fi],
						"record_byte": at, "image": hex.EncodeToString(raw[b[0]:b[1]]), "go": hex.EncodeToString(got[b[0]:b[1]])})
				}
			}
			fields++
			evals++
			if cs.Desc != rec.Msg {
				c.R.Violation(fmt.Sprintf("C17/%s/case-%d/description", t.name, i), map[string]interface{}{
					"case": i, "image_desc": rec.Msg, "go_desc": cs.Desc})
			}
			// the pinned copy must agree as well (image untouched)
			if i < len(pins.Records) && pins.Records[i].Raw != rec.Raw {
				c.R.Violation(fmt.Sprintf("C17/%s/case-%d/image-record-not-canonical", t.name, i), map[string]interface{}{"case": i, "image": rec.Raw, "pinned": pins.Records[i].Raw})
			}
		}
		// the Go port of the exerciser's counter and shifter (Case.Maxes / Iter.Status)
		// against the harness's own port (validated by the 134 hardware CRCs)
		for i, cs := range t.cases {
			base, inc, shift := cs.BaseCase.Bytes(), cs.IncVec.Bytes(), cs.ShiftVec.Bytes()
			sm, cm := cs.Maxes()
			evals++
			if sm != uint64(ones(shift)) || cm != uint64(1)<<uint(ones(inc)) {
				c.R.Violation(fmt.Sprintf("C17/%s/case-%d/maxes", t.name, i), map[string]interface{}{"shiftMax": sm, "countMax": cm})
				continue
			}
			it := cs.Iter()
			stride := uint64(1)
			if (sm+2)*cm > 40000 {
				stride = (sm+2)*cm/40000 + 1
			}
			n := uint64(0)
			for sh := uint64(0); sh < sm+2; sh++ {
				for cnt := uint64(0); cnt < cm; cnt++ {
					n++
					if n%stride != 0 && !(sh <= 1 && cnt <= 1) && cnt != cm-1 {
						continue
					}
					iterChecks++
					got := it.Status(sh, cnt).Bytes()
					want := zexVector(base, inc, shift, sh, cnt)
					if hex.EncodeToString(got) != hex.EncodeToString(want) {
						c.R.Violation(fmt.Sprintf("C17/%s/case-%d/iterator", t.name, i), map[string]interface{}{
							"what": "Iter.Status does not produce the exerciser's test vector", "shift": sh, "count": cnt,
							"go": hex.EncodeToString(got), "canonical": hex.EncodeToString(want)})
						sh = sm + 2
						break
					}
				}
			}
		}
		for d, n := range seenDesc {
			if n > 1 {
				c.R.Violation("C17/"+t.name+"/duplicate-case", map[string]interface{}{"what": "a case appears more than once in the Go table (another one is missing)", "desc": d, "times": n})
			}
		}
		for i := len(t.cases); i < len(recs); i++ {
			c.R.Violation(fmt.Sprintf("C17/%s/case-%d/missing", t.name, i), map[string]interface{}{"what": "canonical record without a Go case", "image_desc": recs[i].Msg})
		}
		if len(recs) > 0 && len(t.cases) > 0 {
			c.R.Sample(map[string]interface{}{"image": t.name + ".cim", "sha256": digest, "case": 0, "desc": recs[0].Msg, "record": recs[0].Raw, "go_record": hex.EncodeToString(goRecord(t.cases[0]))})
		}
	}
	// the two tables are independent values: a host that appends its own record to one of
	// them (append(zex.DocCases, own)) must not change the other - checked last, on this
	// process's copy, by appending to each and comparing both again with what they were
	{
		docBefore := append([]zex.Case(nil), zex.DocCases...)
		allBefore := append([]zex.Case(nil), zex.AllCases...)
		own := zex.Case{Desc: "host's own case"}
		_ = append(zex.DocCases, own)
		_ = append(zex.AllCases, own)
		same := func(a, b []zex.Case) bool {
			if len(a) != len(b) {
				return false
			}
			for i := range a {
				if !reflect.DeepEqual(a[i], b[i]) {
					return false
				}
			}
			return true
		}
		evals += 2
		if !same(docBefore, zex.DocCases) || !same(allBefore, zex.AllCases) {
			c.R.Violation("C17/tables-share-storage", map[string]interface{}{
				"what":             "appending a record to one exported table (append(zex.DocCases, own) / append(zex.AllCases, own)) changed a canonical case: the tables have spare capacity that is another table's storage",
				"cap_len_DocCases": []int{cap(zex.DocCases), len(zex.DocCases)}, "cap_len_AllCases": []int{cap(zex.AllCases), len(zex.AllCases)}})
		}
	}

	// build configurations: the tables are Go data that build constraints can swap.  The
	// check script also builds this monitor with -race (build tag "race", the
	// configuration of `go test -race`) and the comparison is repeated in that binary.
	configs := []string{"default"}
	if os.Getenv("VERIF_C17_CHILD") == "" {
		for _, kv := range strings.Fields(os.Getenv("VERIF_ALT_BINS")) {
			name, bin, ok := strings.Cut(kv, "=")
			if !ok {
				continue
			}
			outDir := filepath.Join(c.Tmp, "alt-"+name)
			os.MkdirAll(outDir, 0o755)
			cmd := exec.Command(bin, "-prop", "C17", "-tier", c.Tier, "-seed", strconv.FormatInt(int64(c.Seed), 10), "-tmp", outDir)
			cmd.Env = append(os.Environ(), "VERIF_C17_CHILD=1", "VERIF_OUT="+outDir)
			ob, err := cmd.CombinedOutput()
			out := string(ob)
			nviol := 0
			for _, ln := range strings.Split(out, "\n") {
				if strings.HasPrefix(strings.TrimSpace(ln), "signature: ") {
					nviol++
					c.R.Violation("C17/"+name+"-build/"+strings.TrimPrefix(strings.TrimSpace(ln), "signature: C17/"), map[string]interface{}{
						"what":          "the exerciser tables linked into a " + name + " build differ from the canonical images (the default build's tables " + map[bool]string{true: "agree", false: "differ too"}[c.R.Violations() == 0] + ")",
						"configuration": name, "child_output_head": out[:min(len(out), 1500)]})
				}
			}
			switch {
			case nviol > 0:
			case err != nil || !strings.Contains(out, "SUMMARY property=C17"):
				c.R.Inconclusive("the " + name + " build of the monitor did not complete: " + fmt.Sprint(err))
			default:
				configs = append(configs, name)
				evals *= 2
				fields *= 2
			}
		}
		if len(configs) < 2 && os.Getenv("VERIF_ALT_BINS") == "" {
			c.R.Assume("only the default build configuration was compared (no alternative binary was provided by the check script)")
		}
	}
	c.R.Set("build_configurations_compared", configs)
	c.R.Set("evaluations", evals)
	c.R.Set("record_fields_compared", fields)
	c.R.Set("iterator_vectors_compared", iterChecks)
	c.R.Set("distinct_nontrivial", fields)
	c.R.Set("exhaustive", true)
	c.R.Set("rule", "finite and compared completely: sha256 of cmd/zexdoc/zexdoc.cim and zexall.cim against the pinned digests of the pristine images; the pointer table is located by decoding `ld hl,tests` in the image AND by running the canonical program on the emulator with a breakpoint on its test-dispatch routine (address read from the CALL in its main loop; mini environment RET at 0005, stack word at 0006, HALT at 0000), harvesting the record at each arrival until the program's own end-of-list test warm-boots; for each of the 2 x 67 cases the flag mask, base/increment/shift vectors (20 bytes each), expected CRC and the description (dot padding stripped) of zex.DocCases / zex.AllCases as linked from /repo are compared byte for byte with the record, in order, no case missing, none duplicated. additionally Case.Maxes and (sampled to <= 40000 per case) Iter.Status vectors are compared with the harness's own port of the counter/shifter. The whole comparison is repeated in a second binary built with -race (build constraints can swap Go data per configuration; `go test -race` is a configuration the suite is run in). One evaluation = one field comparison; all are distinct and non-trivial")
	c.R.Assume("pins/ holds the digests and records of the pristine images (generated once from the pinned tree)")
}
