package props

import (
	"fmt"
	"sync"

	"github.com/koron-go/z80"
	"github.com/koron-go/z80/verif/mon"
)

func init() {
	register("C07", "fault_enumeration", runC07)
}

type c07Kind struct {
	Name   string
	IM     int
	NMI    bool
	Data   func(p *Prog, r *mon.Rng) []uint8
	IM0    bool
	Second bool // a maskable (mode 1) request is raised 1..3 Steps after the NMI was accepted
}

var c07Kinds = []c07Kind{
	{Name: "NMI", IM: 1, NMI: true},
	{Name: "IM1", IM: 1},
	{Name: "IM2", IM: 2, Data: func(p *Prog, r *mon.Rng) []uint8 { return []uint8{uint8(r.Intn(128) * 2)} }},
	{Name: "IM0-RST", IM: 0, IM0: true, Data: func(p *Prog, r *mon.Rng) []uint8 { return []uint8{uint8(0xcf | r.Intn(7)<<3)} }},
	{Name: "IM0-CALL", IM: 0, IM0: true, Data: func(p *Prog, r *mon.Rng) []uint8 {
		h := p.HandlerAddr()
		return []uint8{0xcd, uint8(h), uint8(h >> 8)}
	}},
	{Name: "NMI-in-IM2", IM: 2, NMI: true},
	// a maskable request arrives while the NMI handler is running (interrupts disabled by
	// the acceptance, re-enabled by RETN, not by EI): it must be served after the RETN
	{Name: "NMI+IM1-inside-handler", IM: 1, NMI: true, Second: true},
}

type c07Final struct {
	S    z80.States
	Halt bool
}

// runToHalt Steps until the program is parked on its final HALT.
func c07RunToHalt(cpu *z80.CPU, p *Prog, budget int) (steps int, ok bool) {
	for steps < budget {
		pc := cpu.PC
		cpu.Step()
		steps++
		if pc == p.HaltAddr && cpu.PC == p.HaltAddr && cpu.HALT && cpu.Interrupt == nil {
			return steps, true
		}
	}
	return steps, false
}

const knownIM0 = "C07/im0-resume=pc+len(data)"

// C07 — an interrupt at any boundary is transparent.
func runC07(c *Ctx) {
	mon.DiscardStdLog()
	nprog := c.Pick(300, 60000)
	var mu sync.Mutex
	var evals, accepted, deferred, midBlock, onHalt, baseSteps, totalSteps, im0Known int64
	distinct := mon.NewDistinct(8_000_000)

	Parallel(nprog, func(pi int) {
		r := mon.NewRng(mon.Hash(uint64(c.Seed), uint64(pi), 0xC07))
		mem := &mon.Mem{}
		fill := r.U64()
		mem.Fill(fill)
		ref0 := &mon.Mem{}
		ref0.Fill(fill)
		for ki, kind := range c07Kinds {
			pr := mon.NewRng(mon.Hash(uint64(c.Seed), uint64(pi), uint64(ki), 0xC07A))
			p := GenProgram(pr, GenOpts{Base: 0x0100, MinBlocks: 3, MaxBlocks: 40, IM: kind.IM})
			ioSeed := pr.U64()
			// --- run 1: undisturbed
			ref0.Reset()
			p.Install(ref0)
			io0 := &mon.IO{Seed: ioSeed}
			c0 := z80.CPU{States: p.Init, Memory: ref0, IO: io0}
			n, ok := c07RunToHalt(&c0, p, 200000)
			if !ok {
				c.R.Inconclusive(fmt.Sprintf("generated program %d/%s does not halt within 200000 Steps (generator bug)", pi, kind.Name))
				return
			}
			final0 := c0.States
			mu.Lock()
			baseSteps += int64(n)
			mu.Unlock()
			// which Steps are repetitions of block instructions / inside DI sections
			// (for evidence only): replay and record PC per Step
			pcs := make([]uint16, 0, n+3)
			iffs := make([]bool, 0, n+3)
			{
				ref0.Reset()
				p.Install(ref0)
				t := z80.CPU{States: p.Init, Memory: ref0, IO: &mon.IO{Seed: ioSeed}}
				for i := 0; i < n; i++ {
					pcs = append(pcs, t.PC)
					iffs = append(iffs, t.IFF1)
					t.Step()
				}
				// restore run-1 image for comparison below
				ref0.Reset()
				p.Install(ref0)
				t2 := z80.CPU{States: p.Init, Memory: ref0, IO: &mon.IO{Seed: ioSeed}}
				c07RunToHalt(&t2, p, 200000)
			}
			var data []uint8
			if kind.Data != nil {
				data = kind.Data(p, pr)
			}
			// --- run 2(k): every injection point
			for k := 0; k <= n+2; k++ {
				mem.Reset()
				p.Install(mem)
				io := &mon.IO{Seed: ioSeed}
				cpu := z80.CPU{States: p.Init, Memory: mem, IO: io}
				var rc mon.RetCounter
				hn, hi := rc.Handlers()
				cpu.RETNHandler, cpu.RETIHandler = hn, hi
				steps := 0
				for ; steps < k && steps < n; steps++ {
					cpu.Step()
				}
				for ; steps < k; steps++ {
					cpu.Step() // parked on HALT
				}
				if kind.NMI {
					cpu.Interrupt = z80.NMIInterrupt()
				} else {
					cpu.Interrupt = &z80.Interrupt{Type: z80.IMType, Data: append([]uint8(nil), data...)}
				}
				// continue; watch the accepting Step
				bad := ""
				secondRaised := false
				ranFirst := false
				acceptedAt := -1
				var pushed, pcAcc uint16
				budget := n + 400
				done := false
				for steps < budget+k {
					pc := cpu.PC
					sp := cpu.SP
					pending := cpu.Interrupt != nil
					mem.ClearLog()
					mem.Logging = true
					cpu.Step()
					mem.Logging = false
					steps++
					if kind.Second && acceptedAt >= 0 && !secondRaised && steps-1 == acceptedAt+1+k%3 {
						secondRaised = true
						if cpu.Interrupt == nil {
							cpu.Interrupt = z80.IM1Interrupt()
						}
					}
					if pending && cpu.Interrupt == nil && acceptedAt < 0 {
						acceptedAt = steps - 1
						pcAcc = pc
						// Did the accepting Step also run a program instruction first (an
						// implementation may sample the request at the end of an instruction)?
						// Then the first unexecuted instruction is the next boundary of the
						// undisturbed run.  Before acceptance every Step ran one instruction.
						if len(mem.Log) > 0 && mem.Log[0].Kind == 'R' && mem.Log[0].Addr == pc {
							pcAcc = pcAt(pcs, steps, p)
							sp = cpu.SP + 2 // the push happened after that instruction
							ranFirst = true
						}
						pushed = uint16(mem.Data[sp-2]) | uint16(mem.Data[sp-1])<<8
						if cpu.SP != sp-2 && !ranFirst {
							bad = "acceptance did not lower SP by 2"
							break
						}
						if pushed != pcAcc {
							if kind.IM0 && pushed == pcAcc+uint16(len(data)) {
								// known finding: compensated continuation
								if !c.R.Violation(knownIM0, map[string]interface{}{
									"program": pi, "kind": kind.Name, "k": k, "pc_at_acceptance": h16(pcAcc), "pushed": h16(pushed), "data": HexBytes(data)}) {
									mu.Lock()
									im0Known++
									mu.Unlock()
									mem.Place(sp-2, uint8(pcAcc), uint8(pcAcc>>8))
								} else {
									bad = "known-finding signature not registered"
									break
								}
							} else {
								bad = fmt.Sprintf("return address pushed on acceptance is %04X, first unexecuted instruction is at %04X", pushed, pcAcc)
								break
							}
						}
					}
					if pc == p.HaltAddr && cpu.PC == p.HaltAddr && cpu.Interrupt == nil && acceptedAt >= 0 && (!kind.Second || (secondRaised && mem.Data[genCounter] >= 2)) {
						done = true
						break
					}
					if kind.Second && secondRaised && pc == p.HaltAddr && cpu.PC == p.HaltAddr && cpu.Interrupt != nil && cpu.IFF1 && steps > acceptedAt+200 {
						bad = "a maskable request refused inside the NMI handler is still pending long after RETN re-enabled interrupts (parked on the final HALT with IFF1 set)"
						break
					}
				}
				mu.Lock()
				evals++
				totalSteps += int64(steps)
				if acceptedAt >= 0 {
					accepted++
					if acceptedAt > k {
						deferred++
					}
					if k < n && k > 0 && pcs[k] == pcs[k-1] {
						midBlock++
					}
					if k >= n {
						onHalt++
					}
				}
				mu.Unlock()
				if acceptedAt >= 0 {
					distinct.Add(mon.Hash(uint64(pi), uint64(ki), uint64(k)))
				}
				if bad == "" && !done {
					if acceptedAt < 0 {
						bad = "request never accepted although the program ends with interrupts enabled"
					} else {
						bad = "interrupted run does not come back to the final HALT"
					}
				}
				if bad == "" {
					wantN, wantI := 0, 1
					if kind.NMI {
						wantN, wantI = 1, 0
					}
					if kind.Second {
						wantN, wantI = 1, 1
					}
					if rc.RETN != wantN || rc.RETI != wantI {
						bad = fmt.Sprintf("handler notifications RETN=%d RETI=%d", rc.RETN, rc.RETI)
					}
				}
				wantRuns := uint8(1)
				if kind.Second {
					wantRuns = 2
				}
				if bad == "" && mem.Data[genCounter] != wantRuns {
					bad = fmt.Sprintf("handler ran %d times", mem.Data[genCounter])
				}
				if bad == "" {
					got := cpu.States
					want := final0
					got.IR.Lo, want.IR.Lo = got.IR.Lo&0x80, want.IR.Lo&0x80 // the refresh count differs by the handler's fetches; bit 7 is the program's
					if got != want {
						bad = "final registers/flags/IFF differ from the uninterrupted run"
					} else if !mon.EqualSeq(io.Log, io0.Log) {
						bad = "device traffic differs from the uninterrupted run"
					} else {
						chk := func(a uint16) {
							if a == genCounter {
								return
							}
							// stack bytes below SP are excluded
							if d := final0.SP - a; d >= 1 && d <= 64 {
								return
							}
							if mem.Data[a] != ref0.Data[a] && bad == "" {
								bad = fmt.Sprintf("memory at %04X differs from the uninterrupted run", a)
							}
						}
						for _, a := range mem.Dirty(0) {
							chk(a)
						}
						for _, a := range ref0.Dirty(0) {
							chk(a)
						}
					}
				}
				if bad != "" {
					sig := bad
					if len(sig) > 50 {
						sig = sig[:50]
					}
					where := "running"
					if k >= n {
						where = "parked-on-HALT"
					} else if k > 0 && pcs[k] == pcs[k-1] {
						where = "mid-block-repeat"
					} else if !iffs[k] {
						where = "interrupts-disabled"
					}
					c.R.Violation(fmt.Sprintf("C07/%s/%s/%s", kind.Name, where, sig), map[string]interface{}{
						"what": bad, "program_index": pi, "kind": kind.Name, "data": HexBytes(data), "k": k, "n_steps_uninterrupted": n,
						"where": where, "pc_at_injection": h16(pcAt(pcs, k, p)), "code": HexBytes(p.Code), "base": h16(p.Base),
						"final": DumpState(&cpu.States, cpu.HALT), "final_uninterrupted": DumpState(&final0, true),
						"accepted_at_step": acceptedAt, "pc_at_acceptance": h16(pcAcc), "pushed": h16(pushed)})
				}
			}
			if pi < 2 && ki < 3 {
				code := p.Code
				if len(code) > 64 {
					code = code[:64]
				}
				c.R.Sample(map[string]interface{}{"program_index": pi, "kind": kind.Name, "steps_uninterrupted": n,
					"injection_points": n + 3, "code_head": HexBytes(code), "data": HexBytes(data)})
			}
		}
	})
	c.R.Set("evaluations", evals)
	c.R.Set("interrupted_runs", evals)
	c.R.Set("distinct_nontrivial", distinct.N())
	c.R.Set("programs", int64(nprog*len(c07Kinds)))
	c.R.Set("accepted", accepted)
	c.R.Set("deferred_services", deferred)
	c.R.Set("mid_block_injections", midBlock)
	c.R.Set("on_halt_injections", onHalt)
	c.R.Set("steps_uninterrupted_total", baseSteps)
	c.R.Set("steps_total", totalSteps)
	c.R.Set("im0_known_finding_occurrences", im0Known)
	c.R.Set("exhaustive", false)
	c.R.Set("exhaustive_over", "every Step boundary k = 0..N+2 of every generated program, for each of 6 interrupt kinds (fault enumeration per program)")
	c.R.Set("rule", "generated register-transparent programs (prologue LD SP/IM/LD I/EI; ALU/load code, DJNZ loops, CALL/RET, PUSH/POP, LDIR/LDDR/CPIR/CPDR/OTIR/INIR with small counts, DI..EI sections, EX/EXX, IX/IY code, port I/O; final HALT) x kinds {NMI, IM1, IM2 (random even vector), IM0 RST p, IM0 CALL nn, NMI under IM2, NMI followed by a mode-1 request 1..3 Steps into the NMI handler} x EVERY injection point k=0..N+2 (incl. between block repetitions, inside DI sections => deferred service, and while parked on HALT); twin execution: the interrupted run must return to the final HALT with the same registers/flags/IFF (the low seven bits of R excluded: the handler's fetches count; bit 7 compared), memory (outside the 64 bytes below SP and the handler's private counter), device traffic, the handler having run exactly once and RETN/RETI notified once; the return address found at SP in the accepting Step must be the PC of the first unexecuted instruction. Distinct = distinct (program, kind, k) with the request actually accepted")
	c.R.Assume("mode 0: a pushed address of exactly PC+len(data) is the recorded known finding; the monitor then rewrites the two stack bytes and still compares the rest of the run (compensated continuation)")
	c.R.Assume("handler is transparent by construction (saves what it uses, writes only below SP and to its private cell)")
}

func pcAt(pcs []uint16, k int, p *Prog) uint16 {
	if k < len(pcs) {
		return pcs[k]
	}
	return p.HaltAddr
}
