//go:build !race

package props

const raceEnabled = false
