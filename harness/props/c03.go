package props

import (
	"fmt"
	"sync"

	"github.com/koron-go/z80"
	"github.com/koron-go/z80/verif/mon"
	"github.com/koron-go/z80/verif/ref"
)

func init() {
	register("C03", "exploration", runC03)
}

// 16-bit register selectors
const (
	rBC = iota
	rDE
	rHL
	rSP
	rIX
	rIY
)

var r16Name = []string{"BC", "DE", "HL", "SP", "IX", "IY"}

func get16(s *z80.States, r int) uint16 {
	switch r {
	case rBC:
		return s.BC.U16()
	case rDE:
		return s.DE.U16()
	case rHL:
		return s.HL.U16()
	case rSP:
		return s.SP
	case rIX:
		return s.IX
	}
	return s.IY
}

func set16(s *z80.States, r int, v uint16) {
	switch r {
	case rBC:
		s.BC.SetU16(v)
	case rDE:
		s.DE.SetU16(v)
	case rHL:
		s.HL.SetU16(v)
	case rSP:
		s.SP = v
	case rIX:
		s.IX = v
	default:
		s.IY = v
	}
}

const (
	oADD = iota
	oADC
	oSBC
	oINC
	oDEC
)

type enc16 struct {
	Name  string
	Op    int
	Dst   int // destination / first operand register
	Src   int // second operand register (== Dst for doubling forms)
	Bytes []uint8
	Rep   bool
}

func c03Encodings() []enc16 {
	var out []enc16
	ss := func(p int, idx int) int {
		if p == 2 {
			return idx
		}
		return []int{rBC, rDE, rHL, rSP}[p]
	}
	for p := 0; p < 4; p++ {
		out = append(out, enc16{"ADD HL," + r16Name[ss(p, rHL)], oADD, rHL, ss(p, rHL), []uint8{uint8(0x09 | p<<4)}, p == 0})
		out = append(out, enc16{"ADD IX," + r16Name[ss(p, rIX)], oADD, rIX, ss(p, rIX), []uint8{0xdd, uint8(0x09 | p<<4)}, p == 0})
		out = append(out, enc16{"ADD IY," + r16Name[ss(p, rIY)], oADD, rIY, ss(p, rIY), []uint8{0xfd, uint8(0x09 | p<<4)}, p == 0})
		out = append(out, enc16{"ADC HL," + r16Name[ss(p, rHL)], oADC, rHL, ss(p, rHL), []uint8{0xed, uint8(0x4a | p<<4)}, p == 0})
		out = append(out, enc16{"SBC HL," + r16Name[ss(p, rHL)], oSBC, rHL, ss(p, rHL), []uint8{0xed, uint8(0x42 | p<<4)}, p == 0})
		out = append(out, enc16{"INC " + r16Name[ss(p, rHL)], oINC, ss(p, rHL), -1, []uint8{uint8(0x03 | p<<4)}, false})
		out = append(out, enc16{"DEC " + r16Name[ss(p, rHL)], oDEC, ss(p, rHL), -1, []uint8{uint8(0x0b | p<<4)}, false})
	}
	out = append(out, enc16{"INC IX", oINC, rIX, -1, []uint8{0xdd, 0x23}, false})
	out = append(out, enc16{"INC IY", oINC, rIY, -1, []uint8{0xfd, 0x23}, false})
	out = append(out, enc16{"DEC IX", oDEC, rIX, -1, []uint8{0xdd, 0x2b}, false})
	out = append(out, enc16{"DEC IY", oDEC, rIY, -1, []uint8{0xfd, 0x2b}, false})
	return out
}

// spec16: definitional results (17-bit sum, H on low 12 bits, overflow by
// signed range, Z on the whole word).
func spec16(op int, x, y uint16, f uint8) (uint16, uint8) {
	switch op {
	case oADD:
		return ref.Add16(x, y, f)
	case oADC:
		return ref.Adc16(x, y, f)
	case oSBC:
		return ref.Sbc16(x, y, f)
	case oINC:
		return x + 1, f
	}
	return x - 1, f
}

const c03PC = 0x0200

// c03Run: for x in [x0,x1) (as 32-bit range), y in ys (or y=x for doubling),
// f in fs.
// c03Tail: the bytes that follow the instruction under test in memory (nil: zeros).  The
// instruction's effect does not depend on them; an idiom-recognising fast path might.
func c03Run(c *Ctx, mem *fastMem, e *enc16, base z80.States, x0, x1 uint32, ys []uint16, yAll bool, fs []uint8, tail ...uint8) int64 {
	copy(mem.d[c03PC:], e.Bytes)
	copy(mem.d[c03PC+uint16(len(e.Bytes)):], tail)
	pre := base
	pre.PC = c03PC
	cpu := &z80.CPU{Memory: mem}
	var n int64
	reported := 0
	doubling := e.Src == e.Dst
	single := e.Src < 0
	check := func(x, y uint16, f uint8) {
		p := pre
		p.AF.Lo = f
		if !single && !doubling {
			set16(&p, e.Src, y)
		}
		set16(&p, e.Dst, x)
		cpu.States = p
		cpu.HALT = false
		mem.writes = 0
		if n&0x3ff == 0x155 {
			// continue on a by-value copy of the CPU struct (a user may fork or
			// return a CPU by value); the abandoned struct is scribbled over
			old := cpu
			cpu = new(z80.CPU)
			*cpu = *old
			*old = z80.CPU{}
			old.States.BC.SetU16(0x6b6b)
			old.States.DE.SetU16(0x5a5a)
			old.States.HL.SetU16(0xa5a5)
			old.States.IX, old.States.IY, old.States.SP = 0xdead, 0xbeef, 0x1234
		}
		cpu.Step()
		n++
		yy := y
		if doubling {
			yy = x
		}
		r, nf := spec16(e.Op, x, yy, f)
		exp := p
		set16(&exp, e.Dst, r)
		exp.AF.Lo = nf
		exp.PC = c03PC + uint16(len(e.Bytes))
		exp.IR.Lo = cpu.IR.Lo
		if x == 0x7fff && (yy == 0x0001 || single || doubling) && f == 0x01 && c.R.NSamples() < 10 {
			c.R.Sample(map[string]interface{}{"encoding": e.Name, "bytes": HexBytes(e.Bytes), "x": h16(x), "y": h16(yy), "F_in": h8(f),
				"result": h16(get16(&cpu.States, e.Dst)), "F_out": h8(cpu.States.AF.Lo), "oracle_result": h16(r), "oracle_F": h8(nf)})
		}
		if Arch(cpu.States) != exp || cpu.HALT {
			reported++
			if reported <= 3 {
				c.R.Violation(fmt.Sprintf("C03/%s", e.Name), map[string]interface{}{
					"encoding": e.Name, "bytes": HexBytes(e.Bytes), "x": h16(x), "y": h16(yy), "F": h8(f),
					"want": h16(r), "want_F": h8(nf), "pre": DumpState(&p, false), "post": DumpState(&cpu.States, cpu.HALT)})
			} else if reported == 4 {
				c.R.Violation(fmt.Sprintf("C03/%s/more", e.Name), nil)
			}
		}
	}
	for x := x0; x < x1; x++ {
		if single || doubling {
			for _, f := range fs {
				check(uint16(x), 0, f)
			}
			continue
		}
		if yAll {
			for y := 0; y < 65536; y++ {
				for _, f := range fs {
					check(uint16(x), uint16(y), f)
				}
			}
			continue
		}
		for _, y := range ys {
			for _, f := range fs {
				check(uint16(x), y, f)
			}
		}
	}
	return n
}

var c03F4 = []uint8{0x00, 0xff, 0x01, 0xfe}

func c03Lattice(r *mon.Rng, n int) []uint16 {
	seen := map[uint16]bool{}
	var out []uint16
	add := func(v uint16) {
		if !seen[v] && len(out) < n {
			seen[v] = true
			out = append(out, v)
		}
	}
	for _, b := range []uint16{0x0000, 0x0001, 0x000f, 0x0010, 0x00ff, 0x0100, 0x0fff, 0x1000, 0x7fff, 0x8000, 0xf000, 0xefff, 0xffff} {
		for d := -2; d <= 2; d++ {
			add(b + uint16(d))
		}
	}
	for i := uint(0); i < 16; i++ {
		add(1 << i)
		add(^(uint16(1) << i))
		add(1<<i - 1)
	}
	for len(out) < n {
		add(r.U16())
	}
	return out
}

func runC03(c *Ctx) {
	if !RequireOracle(c) {
		return
	}
	mon.DiscardStdLog()
	encs := c03Encodings()
	thorough := c.Thorough()
	all := allBytes()
	r0 := mon.NewRng(uint64(c.Seed) ^ 0xC03)
	lattice := c03Lattice(r0, c.Pick(512, 2048))
	bases := make([]z80.States, len(encs))
	for i := range bases {
		bases[i] = RandStates(r0)
	}
	var mu sync.Mutex
	var evals, fullPairs, latticeSteps, completeSingles, allF, idiomSteps int64
	type job struct {
		ei     int
		x0, x1 uint32
		yAll   bool
		fs     []uint8
		ys     []uint16
		class  int
		tail   []uint8
	}
	var jobs []job
	for ei := range encs {
		e := &encs[ei]
		switch {
		case e.Src < 0 || e.Src == e.Dst:
			// INC/DEC and doubling forms: all 65536 values x all 256 F, complete
			for ch := uint32(0); ch < 16; ch++ {
				jobs = append(jobs, job{ei, ch * 4096, (ch + 1) * 4096, false, all, nil, 2, nil})
			}
		default:
			if thorough && e.Rep {
				// all 2^32 pairs x 4 F patterns
				for ch := uint32(0); ch < 256; ch++ {
					jobs = append(jobs, job{ei, ch * 256, (ch + 1) * 256, true, c03F4, nil, 0, nil})
				}
			} else if thorough {
				// every other ss encoding: all 2^32 pairs x F in {00, FF} (carry-in and
				// every preserved bit at 0 and at 1), plus the lattice with 4 patterns
				for ch := uint32(0); ch < 256; ch++ {
					jobs = append(jobs, job{ei, ch * 256, (ch + 1) * 256, true, []uint8{0x00, 0xff}, nil, 0, nil})
				}
				for ch := uint32(0); ch < 16; ch++ {
					jobs = append(jobs, job{ei, ch * 4096, (ch + 1) * 4096, false, c03F4, lattice, 1, nil})
				}
			} else {
				for ch := uint32(0); ch < 16; ch++ {
					jobs = append(jobs, job{ei, ch * 4096, (ch + 1) * 4096, false, c03F4, lattice, 1, nil})
				}
			}
			// all 256 F on a reduced pair set (2^20 pairs thorough, 2^16 quick)
			ny := 16
			if !thorough {
				ny = 4
			}
			for ch := uint32(0); ch < 4; ch++ {
				jobs = append(jobs, job{ei, ch * 16384, (ch + 1) * 16384, false, all, lattice[:ny], 3, nil})
			}
		}
	}
	// INC/DEC BC/DE/HL once more inside the code they usually live in: the 16-bit count-down
	// / count-up loop  <INC|DEC> rr ; LD A,r ; OR r' ; JR NZ,loop  (both byte orders), all
	// 65536 values: one Step is still exactly rr+-1, flags untouched
	for ei := range encs {
		e := &encs[ei]
		if e.Src >= 0 || len(e.Bytes) != 1 || e.Bytes[0]&0xc7 != 0x03 || e.Bytes[0]>>4 > 2 {
			continue
		}
		p := e.Bytes[0] >> 4 // 0 BC, 1 DE, 2 HL
		hi, lo := uint8(0x78+2*p), uint8(0x79+2*p)
		for _, t := range [][]uint8{{hi, 0xb0 | (lo & 7), 0x20, 0xfb}, {lo, 0xb0 | (hi & 7), 0x20, 0xfb}, {hi, 0xb0 | (lo & 7), 0xc2, uint8(c03PC & 0xff), uint8(c03PC >> 8)}} {
			for ch := uint32(0); ch < 4; ch++ {
				jobs = append(jobs, job{ei, ch * 16384, (ch + 1) * 16384, false, []uint8{0x00, 0xff, 0x44}, nil, 4, t})
			}
		}
	}
	Parallel(len(jobs), func(ji int) {
		j := jobs[ji]
		mem := &fastMem{}
		n := c03Run(c, mem, &encs[j.ei], bases[j.ei], j.x0, j.x1, j.ys, j.yAll, j.fs, j.tail...)
		mu.Lock()
		evals += n
		switch j.class {
		case 0:
			fullPairs += n
		case 1:
			latticeSteps += n
		case 2:
			completeSingles += n
		case 3:
			allF += n
		case 4:
			idiomSteps += n
		}
		mu.Unlock()
	})
	c.R.Set("second_operand_lattice_head", fmt.Sprint(lattice[:12]))
	c.R.Set("steps_inside_the_16bit_loop_idiom", idiomSteps)
	c.R.Set("evaluations", evals)
	c.R.Set("distinct_nontrivial", evals)
	c.R.Set("encodings", int64(len(encs)))
	c.R.Set("steps_all_2^32_pairs", fullPairs)
	c.R.Set("steps_lattice", latticeSteps)
	c.R.Set("steps_complete_doubling_incdec", completeSingles)
	c.R.Set("steps_all_256_F", allF)
	c.R.Set("second_operand_lattice_size", int64(len(lattice)))
	c.R.Set("exhaustive", false)
	if thorough {
		c.R.Set("exhaustive_parts", "all 2^32 operand pairs x F in {00,FF,01,FE} for ADD HL,BC / ADD IX,BC / ADD IY,BC / ADC HL,BC / SBC HL,BC and x F in {00,FF} for each of the other 10 non-doubling ss encodings; doubling forms and INC/DEC ss/IX/IY: all 65536 values x all 256 F")
	} else {
		c.R.Set("exhaustive_parts", "doubling forms and INC/DEC ss/IX/IY: all 65536 values x all 256 F")
	}
	c.R.Set("rule", "every ss encoding of ADD HL/IX/IY, ADC HL, SBC HL: all 65536 first operands x a lattice of second operands (nibble/sign edges, single bits, PRNG; 512 quick / 2048 thorough) x F in {00,FF,01,FE}, plus all 256 F on a reduced pair set; thorough adds all 2^32 pairs x 4 F for one encoding of each operation and all 2^32 pairs x 2 F for every other ss encoding; doubling forms and INC/DEC complete (65536 x 256 F); INC/DEC BC/DE/HL again with the 16-bit loop idiom (LD A,r; OR r'; JR NZ / JP NZ back) as the following bytes, all 65536 values. Oracle: 17-bit sum, H from the low 12 bits, overflow by signed range check, Z on the whole word; the whole States value is compared so nothing else may change; every 1024th Step continues on a by-value copy of the CPU struct while the abandoned struct is scribbled over. Each (encoding, x, y, F) tuple is enumerated once: distinct = evaluations by construction, all non-trivial")
}
