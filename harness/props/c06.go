package props

import (
	"fmt"
	"sync"

	"github.com/koron-go/z80"
	"github.com/koron-go/z80/verif/mon"
	"github.com/koron-go/z80/verif/ref"
)

func init() {
	register("C06", "exploration", runC06)
}

type irqKind struct {
	NMI  bool
	Data []uint8
}

func (k irqKind) make() *z80.Interrupt {
	if k.NMI {
		return z80.NMIInterrupt()
	}
	return &z80.Interrupt{Type: z80.IMType, Data: append([]uint8(nil), k.Data...)}
}

func (k irqKind) String() string {
	if k.NMI {
		return "NMI"
	}
	return "INT[" + HexBytes(k.Data) + "]"
}

// c06Single checks one Step with a request pending against the abstract
// interrupt-controller model transcribed from the property.
func c06Single(c *Ctx, mem, twin *mon.Mem, pre z80.States, halted bool, k irqKind, cells map[string]int64) {
	mem.Reset()
	twin.Reset()
	if halted {
		mem.Place(pre.PC, 0x76)
		twin.Place(pre.PC, 0x76)
	}
	mark := mem.Mark()
	var rc mon.RetCounter
	hn, hi := rc.Handlers()
	req := k.make()
	cpu := z80.CPU{States: pre, Memory: mem, HALT: halted, Interrupt: req, RETNHandler: hn, RETIHandler: hi}
	var pan interface{}
	func() {
		defer func() { pan = recover() }()
		cpu.Step()
	}()
	accept := k.NMI || pre.IFF1
	outcome := "refused"
	if accept {
		outcome = "accepted"
	}
	cell := fmt.Sprintf("%v/IM%d/IFF1=%v/IFF2=%v/halted=%v/%s", map[bool]string{true: "NMI", false: "INT"}[k.NMI], pre.IM, pre.IFF1, pre.IFF2, halted, outcome)
	cells[cell]++
	bad := ""
	fail := func(s string) {
		if bad == "" {
			bad = s
		}
	}
	if pan != nil {
		fail(fmt.Sprintf("panic: %v", pan))
	}
	var extra map[string]interface{}
	if bad == "" && !accept {
		// refused: nothing changes, request stays, the program instruction runs
		// exactly as without a request (twin)
		var trc mon.RetCounter
		thn, thi := trc.Handlers()
		t := z80.CPU{States: pre, Memory: twin, HALT: halted, RETNHandler: thn, RETIHandler: thi}
		t.Step()
		if rc != trc {
			fail("refused request changed the handler notifications of the program instruction")
		}
		rc = mon.RetCounter{} // the program instruction itself may be a RETN/RETI
		if cpu.Interrupt != req {
			fail("refused request did not stay pending")
		} else if req.Type != z80.IMType || !bytesEq(req.Data, k.Data) {
			fail("refused request was modified")
		}
		// architectural fields only: an implementation of the allowed EI delay may keep
		// its one-instruction latch in an extra public field of States
		if Arch(cpu.States) != Arch(t.States) || cpu.HALT != t.HALT {
			fail("refused request changed the Step's outcome")
		}
		if !mon.EqualSeq(mem.Log, twin.Log) {
			fail("refused request changed the Step's bus traffic")
		}
	}
	if bad == "" && accept {
		if cpu.Interrupt != nil {
			fail("accepted request not consumed")
		}
		exp := pre
		exp.SP = pre.SP - 2
		var wantReads []uint16
		var altPC []uint16
		cmpPushed := true
		switch {
		case k.NMI:
			exp.PC = 0x0066
			exp.IFF2 = pre.IFF1
			exp.IFF1 = false
		case pre.IM == 1:
			exp.PC = 0x0038
			exp.IFF1, exp.IFF2 = false, false
		case pre.IM == 2:
			v := k.Data[0]
			ta := uint16(pre.IR.Hi)<<8 | uint16(v&0xfe)
			wantReads = []uint16{ta, ta + 1}
			rd := func(a uint16) uint16 {
				// the pushed bytes may overlap the table entry: the push happens first
				b := func(x uint16) uint8 {
					if x == exp.SP {
						return uint8(pre.PC)
					}
					if x == exp.SP+1 {
						return uint8(pre.PC >> 8)
					}
					return mem.Data[x]
				}
				_ = b
				return uint16(mem.Data[a]) | uint16(mem.Data[a+1])<<8
			}
			exp.PC = rd(ta)
			if v&1 == 1 {
				// odd vector: the property presupposes an even one; accept the
				// unmasked table address as well
				ua := uint16(pre.IR.Hi)<<8 | uint16(v)
				altPC = append(altPC, rd(ua))
				wantReads = append(wantReads, ua, ua+1)
			}
			exp.IFF1, exp.IFF2 = false, false
		case pre.IM == 0:
			cmpPushed = false // C07's subject (known finding there)
			exp.IFF1, exp.IFF2 = false, false
			if k.Data[0]&0xc7 == 0xc7 {
				exp.PC = uint16(k.Data[0] & 0x38)
			} else { // CALL nn
				exp.PC = uint16(k.Data[1]) | uint16(k.Data[2])<<8
			}
		}
		got := Arch(cpu.States)
		got.IR.Lo = exp.IR.Lo
		pcOK := got.PC == exp.PC
		for _, a := range altPC {
			if got.PC == a {
				pcOK = true
			}
		}
		got.PC = exp.PC
		if !pcOK {
			fail("wrong handler address")
		}
		if got.IFF1 != exp.IFF1 || got.IFF2 != exp.IFF2 {
			fail(fmt.Sprintf("IFF1/IFF2 after acceptance = %v/%v, want %v/%v", cpu.IFF1, cpu.IFF2, exp.IFF1, exp.IFF2))
		}
		if got.SP != exp.SP {
			fail("SP not lowered by 2")
		}
		if got != exp {
			fail("acceptance changed another register")
		}
		// bus: two stack writes, nothing fetched from program memory
		var writes []mon.Access
		for _, a := range mem.Log {
			if a.Kind == 'W' {
				writes = append(writes, a)
				continue
			}
			ok := false
			for _, w := range wantReads {
				if a.Addr == w {
					ok = true
				}
			}
			if !ok {
				fail(fmt.Sprintf("acceptance read program memory at %04X (no program instruction may run in that Step)", a.Addr))
			}
		}
		if len(writes) != 2 {
			fail(fmt.Sprintf("acceptance made %d memory writes, want the 2 stack bytes", len(writes)))
		} else {
			hiW, loW := writes[0], writes[1]
			if hiW.Addr != pre.SP-1 {
				hiW, loW = loW, hiW
			}
			if hiW.Addr != pre.SP-1 || loW.Addr != pre.SP-2 {
				fail("stack bytes written at the wrong addresses")
			} else if cmpPushed && (hiW.Val != uint8(pre.PC>>8) || loW.Val != uint8(pre.PC)) {
				fail("pushed value is not PC")
			}
		}
		for _, a := range mem.Dirty(mark) {
			if a != pre.SP-1 && a != pre.SP-2 {
				fail("acceptance wrote memory outside the two stack bytes")
			}
		}
		extra = map[string]interface{}{"want_PC": h16(exp.PC), "want_IFF1": exp.IFF1, "want_IFF2": exp.IFF2}
	}
	if bad == "" && (rc.RETN != 0 || rc.RETI != 0) {
		fail("RETN/RETI handler notified without RETN/RETI")
	}
	if bad != "" {
		w := map[string]interface{}{"what": bad, "request": k.String(), "pre": DumpState(&pre, halted),
			"post": DumpState(&cpu.States, cpu.HALT), "bus": DumpAccesses(mem.Log), "pending_after": cpu.Interrupt != nil}
		for kk, v := range extra {
			w[kk] = v
		}
		sig := bad
		if len(sig) > 44 {
			sig = sig[:44]
		}
		c.R.Violation(fmt.Sprintf("C06/single/%s/IM%d/%s", map[bool]string{true: "NMI", false: "INT"}[k.NMI], pre.IM, sig), w)
	}
}

func bytesEq(a, b []uint8) bool {
	if len(a) != len(b) {
		return false
	}
	for i := range a {
		if a[i] != b[i] {
			return false
		}
	}
	return true
}

// ---------------------------------------------------------------------------
// histories with an instruction tape

type c06Ev int

const (
	evEI c06Ev = iota
	evDI
	evNOP
	evHALT
	evRETN
	evRETI
	evLDAI
	evLDAR
	evIM0
	evIM1
	evIM2
	evRaiseNMI
	evRaiseINT
	evINCB
	nEv
)

var c06EvName = []string{"EI", "DI", "NOP", "HALT", "RETN", "RETI", "LD A,I", "LD A,R", "IM 0", "IM 1", "IM 2", "raise NMI", "raise INT", "INC B"}
var c06EvBytes = [][]uint8{{0xfb}, {0xf3}, {0x00}, {0x76}, {0xed, 0x45}, {0xed, 0x4d}, {0xed, 0x57}, {0xed, 0x5f},
	{0xed, 0x46}, {0xed, 0x56}, {0xed, 0x5e}, nil, nil, {0x04}}

func c06History(c *Ctx, r *mon.Rng, mem *mon.Mem, hi int, shapes *mon.Distinct) (steps int, accepted int, deferred int) {
	mem.Reset()
	var rc mon.RetCounter
	hn, hh := rc.Handlers()
	withHandlers := r.Bool() // RETN/RETI must do their architectural work with or without a handler
	var s z80.States
	s.PC = 0x0100 + uint16(r.Intn(0x4000))
	s.SP = 0xf000
	if r.Intn(8) == 0 {
		s.SP = uint16(r.Intn(4)) // stack wraps
	}
	s.IR.Hi = r.U8()
	s.IM = r.Intn(3)
	s.IFF1 = r.Bool()
	s.IFF2 = s.IFF1
	cpu := z80.CPU{States: s, Memory: mem, RETNHandler: hn, RETIHandler: hh}
	if !withHandlers {
		cpu.RETNHandler, cpu.RETIHandler = nil, nil
	}
	// model
	mIFF1, mIFF2, mIM := s.IFF1, s.IFF2, s.IM
	var pend *irqKind
	afterEI := false
	pendSince := 0
	length := 8 + r.Intn(33)
	var trace []string
	shape := uint64(0)
	fail := func(step int, what string) {
		sig := what
		if len(sig) > 48 {
			sig = sig[:48]
		}
		c.R.Violation("C06/history/"+sig, map[string]interface{}{"what": what, "history": trace, "step": step,
			"state": DumpState(&cpu.States, cpu.HALT), "model_IFF1": mIFF1, "model_IFF2": mIFF2, "model_IM": mIM, "history_index": hi})
	}
	depth := 0
	var reRaisePending *irqKind
	reRaises := 0
	for step := 0; step < length; step++ {
		// choose the next event
		ev := c06Ev(r.Intn(int(nEv)))
		// bias: handlers end with EI;RETI / RETN, requests are frequent
		if depth > 0 && r.Intn(3) == 0 {
			ev = []c06Ev{evEI, evRETI, evRETN}[r.Intn(3)]
		}
		if ev == evRaiseNMI || ev == evRaiseINT {
			if pend != nil || depth >= 3 {
				ev = evNOP
			}
		}
		if ev == evRaiseNMI {
			pend = &irqKind{NMI: true}
			cpu.Interrupt = pend.make()
			pendSince = step
			trace = append(trace, "raise NMI")
			shape = mon.Hash(shape, uint64(ev))
			ev = c06Ev(r.Intn(int(evRaiseNMI))) // plus an instruction on the tape
		} else if ev == evRaiseINT {
			var data []uint8
			switch r.Intn(3) {
			case 0:
				data = []uint8{uint8(0xc7 | r.Intn(8)<<3)} // RST p (mode 0) / vector (mode 2: odd -> made even below)
			case 1:
				data = []uint8{uint8(r.Intn(128) * 2)}
			case 2:
				t := r.U16()
				data = []uint8{0xcd, uint8(t), uint8(t >> 8)}
			}
			pend = &irqKind{Data: data}
			cpu.Interrupt = pend.make()
			pendSince = step
			trace = append(trace, "raise "+pend.String())
			shape = mon.Hash(shape, uint64(ev))
			ev = c06Ev(r.Intn(int(evRaiseNMI)))
		}
		if ev >= evRaiseNMI {
			ev = evNOP
		}
		// the data of a pending maskable request must fit the mode in force when it is examined
		if pend != nil && !pend.NMI {
			if len(pend.Data) == 0 && mIM != 1 {
				pend.Data = []uint8{0xfe}
				cpu.Interrupt = pend.make()
			}
			switch mIM {
			case 0:
				if !(pend.Data[0]&0xc7 == 0xc7 || (pend.Data[0] == 0xcd && len(pend.Data) == 3)) {
					pend.Data = []uint8{0xff}
					cpu.Interrupt = pend.make()
				}
			case 2:
				if len(pend.Data) != 1 || pend.Data[0]&1 == 1 {
					pend.Data = []uint8{pend.Data[0] &^ 1}
					cpu.Interrupt = pend.make()
				}
			}
		}
		// tape: write the instruction at the current PC
		bs := c06EvBytes[ev]
		mem.Place(cpu.PC, bs...)
		pre := cpu.States
		preRC := rc
		mem.ClearLog()
		mem.Logging = true
		// a device may raise the next request of the same kind while this one is
		// being accepted (from the stack-write callback, through the public
		// constructor): it must stay pending, not vanish with the accepted one
		reRaised := false
		if pend != nil && (pend.NMI || mIM == 1) && r.Intn(4) == 0 {
			nmi := pend.NMI
			mem.Hook = func(m *mon.Mem, a mon.Access) {
				if a.Kind == 'W' && !reRaised {
					reRaised = true
					if nmi {
						cpu.Interrupt = z80.NMIInterrupt()
					} else {
						cpu.Interrupt = z80.IM1Interrupt()
					}
				}
			}
		}
		cpu.Step()
		mem.Hook = nil
		steps++
		if reRaised {
			// none of the tape's instructions writes memory: the write was the acceptance push
			if cpu.Interrupt == nil {
				fail(step, "a request raised (through the constructor) while the previous one of the same kind was being accepted is lost")
				return
			}
			trace = append(trace, "  (same kind re-raised during the acceptance push)")
			reRaisedKeep := *pend
			if !pend.NMI {
				reRaisedKeep.Data = nil
			}
			// judge this Step as the acceptance it is (the slot is emptied for the
			// common code below), then put the new request back as pending
			cpu.Interrupt = nil
			reRaisePending = &reRaisedKeep
		}
		// what did the emulator do?
		fetched := false
		for _, a := range mem.Log {
			if a.Kind == 'R' && a.Addr == pre.PC {
				fetched = true
			}
		}
		consumed := pend != nil && cpu.Interrupt == nil
		mustAccept := pend != nil && (pend.NMI || mIFF1)
		mayDelay := pend != nil && !pend.NMI && mIFF1 && afterEI
		switch {
		case pend != nil && consumed:
			if !mustAccept {
				fail(step, "maskable request accepted while IFF1 is clear")
				return
			}
			if fetched && !(pend.Data != nil && mIM == 2) {
				fail(step, "program instruction also fetched in the accepting Step")
				return
			}
			accepted++
			if pendSince < step {
				deferred++
			}
			trace = append(trace, fmt.Sprintf("  -> accepted %s at PC=%04X", pend.String(), pre.PC))
			shape = mon.Hash(shape, 0xacc)
			// model effects
			if pend.NMI {
				mIFF2 = mIFF1
				mIFF1 = false
				if cpu.PC != 0x0066 {
					fail(step, "NMI handler address")
					return
				}
			} else {
				mIFF1, mIFF2 = false, false
				switch mIM {
				case 1:
					if cpu.PC != 0x0038 {
						fail(step, "mode 1 handler address")
						return
					}
				case 0:
					want := uint16(pend.Data[0] & 0x38)
					if pend.Data[0] == 0xcd {
						want = uint16(pend.Data[1]) | uint16(pend.Data[2])<<8
					}
					if cpu.PC != want {
						fail(step, "mode 0 handler address")
						return
					}
				}
			}
			if cpu.SP != pre.SP-2 {
				fail(step, "SP not lowered by 2 on acceptance")
				return
			}
			if cpu.IFF1 != mIFF1 || cpu.IFF2 != mIFF2 {
				fail(step, fmt.Sprintf("IFF after acceptance %v/%v, model %v/%v", cpu.IFF1, cpu.IFF2, mIFF1, mIFF2))
				return
			}
			pend = nil
			depth++
			afterEI = false
			if reRaisePending != nil {
				pend = reRaisePending
				reRaisePending = nil
				cpu.Interrupt = pend.make()
				pendSince = step
				reRaises++
			}
			continue
		case mustAccept && !mayDelay:
			fail(step, fmt.Sprintf("pending %s not accepted at a Step boundary where it must be (IFF1=%v)", pend.String(), mIFF1))
			return
		}
		if pend != nil && cpu.Interrupt == nil {
			fail(step, "request vanished")
			return
		}
		// a program instruction ran
		trace = append(trace, c06EvName[ev])
		shape = mon.Hash(shape, uint64(ev))
		afterEI = false
		wantRETN, wantRETI := preRC.RETN, preRC.RETI
		switch ev {
		case evEI:
			mIFF1, mIFF2 = true, true
			afterEI = true
		case evDI:
			mIFF1, mIFF2 = false, false
		case evRETN:
			mIFF1 = mIFF2
			wantRETN++
			if depth > 0 {
				depth--
			}
		case evRETI:
			wantRETI++
			if cpu.IFF1 != mIFF1 && cpu.IFF1 == mIFF2 {
				mIFF1 = mIFF2 // silicon variant
			}
			if depth > 0 {
				depth--
			}
		case evIM0:
			mIM = 0
		case evIM1:
			mIM = 1
		case evIM2:
			mIM = 2
		case evLDAI, evLDAR:
			if (cpu.AF.Lo&ref.FPV != 0) != mIFF2 {
				fail(step, "LD A,I / LD A,R reports P/V != IFF2 of the model")
				return
			}
		}
		if !withHandlers {
			wantRETN, wantRETI = 0, 0
		}
		if rc.RETN != wantRETN || rc.RETI != wantRETI {
			fail(step, fmt.Sprintf("handler notifications RETN=%d RETI=%d, want %d/%d", rc.RETN, rc.RETI, wantRETN, wantRETI))
			return
		}
		if cpu.IFF1 != mIFF1 || cpu.IFF2 != mIFF2 || cpu.IM != mIM {
			fail(step, fmt.Sprintf("IFF1/IFF2/IM = %v/%v/%d, model %v/%v/%d after %s", cpu.IFF1, cpu.IFF2, cpu.IM, mIFF1, mIFF2, mIM, c06EvName[ev]))
			return
		}
	}
	shapes.Add(shape)
	if hi < 3 {
		c.R.Sample(map[string]interface{}{"history": trace})
	}
	return
}

// C06 — interrupt acceptance, refusal, dispatch, retirement.
func runC06(c *Ctx) {
	if !RequireOracle(c) {
		return
	}
	mon.DiscardStdLog()
	nd := c.Pick(512, 65536)
	var mu sync.Mutex
	var evals int64
	cells := map[string]int64{}
	distinct := mon.NewDistinct(4_000_000)

	// (1) exhaustive control product x data samples
	type ctl struct {
		nmi        bool
		im         int
		iff1, iff2 bool
		halted     bool
	}
	var ctls []ctl
	for _, nmi := range []bool{true, false} {
		for im := 0; im < 3; im++ {
			for i := 0; i < 8; i++ {
				ctls = append(ctls, ctl{nmi, im, i&1 != 0, i&2 != 0, i&4 != 0})
			}
		}
	}
	Parallel(len(ctls), func(ci int) {
		ct := ctls[ci]
		r := mon.NewRng(mon.Hash(uint64(c.Seed), uint64(ci), 0xC06))
		mem, twin := &mon.Mem{}, &mon.Mem{}
		seed := r.U64()
		mem.Fill(seed)
		twin.Fill(seed)
		mem.Logging, twin.Logging = true, true
		lc := map[string]int64{}
		var lev int64
		for j := 0; j < nd*8; j++ {
			pre := RandStates(r)
			pre.IM, pre.IFF1, pre.IFF2 = ct.im, ct.iff1, ct.iff2
			switch r.Intn(8) {
			case 0:
				pre.SP = []uint16{0, 1, 2, 0xffff}[r.Intn(4)]
			case 1:
				pre.PC = 0xffff
			case 2:
				pre.SP = pre.PC + uint16(r.Intn(6)) - 1 // stack bytes meet PC
			}
			k := irqKind{NMI: ct.nmi}
			if !ct.nmi {
				switch ct.im {
				case 0:
					if j%3 == 2 {
						t := Ptr16(r, pre.PC)
						k.Data = []uint8{0xcd, uint8(t), uint8(t >> 8)}
					} else {
						k.Data = []uint8{uint8(0xc7 | (j%8)<<3)}
					}
				case 1:
					if j%2 == 0 {
						k.Data = []uint8{r.U8()} // dummy data is ignored in mode 1
					}
				case 2:
					k.Data = []uint8{uint8(j)} // all 256 vector bytes cycle
					if j%8 == 5 {
						// the stack has grown down onto the vector table: the return address is
						// pushed over the entry that is then read (push first, as on silicon)
						ta := uint16(pre.IR.Hi)<<8 | uint16(k.Data[0]&0xfe)
						pre.SP = ta + uint16(r.Intn(5))
					}
				}
			}
			c06Single(c, mem, twin, pre, ct.halted, k, lc)
			lev++
			distinct.Add(mon.Hash(uint64(ci), uint64(j), uint64(pre.PC)<<16|uint64(pre.SP)))
		}
		mu.Lock()
		evals += lev
		for k, v := range lc {
			cells[k] += v
		}
		mu.Unlock()
	})

	// (2) histories
	nh := c.Pick(40000, 12000000)
	shapes := mon.NewDistinct(4_000_000)
	var hsteps, hacc, hdef int64
	Parallel(64, func(sh int) {
		r := mon.NewRng(mon.Hash(uint64(c.Seed), uint64(sh), 0xC06B))
		mem := &mon.Mem{}
		mem.Fill(r.U64())
		var ls, la, ld int64
		for i := 0; i < nh/64; i++ {
			s, a, d := c06History(c, r, mem, sh*(nh/64)+i, shapes)
			ls += int64(s)
			la += int64(a)
			ld += int64(d)
		}
		mu.Lock()
		hsteps += ls
		hacc += la
		hdef += ld
		mu.Unlock()
	})

	// (3) handler counters over all encodings: only ED 45 / ED 4D notify
	encs := InScopeEncodings()
	var hsweep int64
	{
		rig := NewStepRig(uint64(c.Seed) ^ 0x6)
		r := mon.NewRng(uint64(c.Seed) ^ 0x66)
		inScope := inScopeKeys()
		for _, enc := range AllEncodings() {
			if (enc.Table == ref.TDD || enc.Table == ref.TFD) && (enc.Op == 0xdd || enc.Op == 0xfd || enc.Op == 0xed) {
				continue // prefix chains: on silicon the last prefix wins (DD ED 4D is RETI); no verdict
			}
			for k := 0; k < 16; k++ {
				sc := MakeStepCase(enc, r, k)
				sc.NoHandlers = k%4 == 3
				o := rig.Run(&sc)
				hsweep++
				wn, wi := 0, 0
				if enc.Table == ref.TED && enc.Op == 0x45 {
					wn = 1
				}
				if enc.Table == ref.TED && enc.Op == 0x4d {
					wi = 1
				}
				if sc.NoHandlers {
					wn, wi = 0, 0
				}
				gotN, gotI := rig.RC.RETN, rig.RC.RETI
				ok := gotN == wn && gotI == wi
				// the undocumented mirrors of RETN (ED 55 65 75 5D 6D 7D) are not
				// implemented on this tree (no notification); an implementation
				// that executes them must notify the RETN handler, never RETI's
				mirror := enc.Table == ref.TED && enc.Op&0xc7 == 0x45 && enc.Op != 0x45 && enc.Op != 0x4d
				if mirror && !sc.NoHandlers && gotI == 0 && gotN <= 1 {
					ok = true
				}
				if !ok || (inScope[enc.Key()] && o.Bad&BadHandler != 0) {
					w := rig.Witness(enc, &sc, &o)
					w["what"] = fmt.Sprintf("handler notifications RETN=%d RETI=%d, want %d/%d", gotN, gotI, wn, wi)
					c.R.Violation("C06/handler-sweep/"+enc.String(), w)
				}
				// RETN/RETI must do their architectural work with and without a handler
				if inScope[enc.Key()] && enc.Table == ref.TED && (enc.Op == 0x45 || enc.Op == 0x4d) && o.Bad&(BadState|BadMem) != 0 {
					w := rig.Witness(enc, &sc, &o)
					w["what"] = fmt.Sprintf("RETN/RETI outcome differs from the Z80's (handlers registered: %v)", !sc.NoHandlers)
					c.R.Violation(fmt.Sprintf("C06/retn-reti-state/%s/handlers=%v", enc.String(), !sc.NoHandlers), w)
				}
			}
		}
		_ = encs
	}

	// (4) mode 0 with an arbitrary supplied instruction
	im0n, im0skipped := c06IM0Any(c)
	c.R.Set("mode0_supplied_instruction_steps", im0n)
	c.R.Set("mode0_supplied_instruction_cases_not_judged", im0skipped)
	evals += im0n

	// (5) several acceptances on one CPU object, table / memory object changed in between
	repN := c06Repeated(c)
	c.R.Set("repeated_acceptance_steps", repN)
	evals += repN

	cellList := map[string]int64{}
	for k, v := range cells {
		cellList[k] = v
	}
	c.R.Set("evaluations", evals+int64(nh)+hsweep)
	c.R.Set("single_step_cases", evals)
	c.R.Set("control_cells", cellList)
	c.R.Set("control_cells_covered", int64(len(cells)))
	c.R.Set("histories", int64(nh))
	c.R.Set("history_steps", hsteps)
	c.R.Set("history_acceptances", hacc)
	c.R.Set("history_deferred_acceptances", hdef)
	c.R.Set("distinct_history_shapes", shapes.N())
	c.R.Set("handler_sweep_steps", hsweep)
	c.R.Set("distinct_nontrivial", distinct.N()+shapes.N())
	c.R.Set("exhaustive", false)
	c.R.Set("exhaustive_over", "type{NMI,INT} x IM{0,1,2} x IFF1 x IFF2 x {running, parked on HALT} (48 control combinations, each with data samples; all 256 vector bytes in mode 2, 8 RST and CALL nn in mode 0)")
	c.R.Set("rule", "(1) every control combination x boundary-biased data (PC=FFFF, SP in {0,1,2,FFFF}, stack bytes meeting PC): one Step with the request pending is judged by the abstract controller transcribed from the property (consumed?, handler address, IFF1/IFF2, SP-2, the two stack bytes = PC except in mode 0, no other register or memory change, no program fetch; refused: identical to the twin Step without a request and the request object untouched); (2) seeded histories of length 8..40 over {EI, DI, NOP, HALT, RETN, RETI, LD A,I, LD A,R, IM 0/1/2, INC B, raise NMI, raise INT} on an instruction tape (in 1/4 of NMI / mode-1 acceptances the device re-raises the same kind through the public constructor from the stack-write callback: it must stay pending), nesting depth <= 3, model stepped alongside (acceptance exactly when due, EI-delay of one instruction tolerated, RETI IFF tolerance, P/V of LD A,I = model IFF2, handler notifications exactly once per RETN/RETI); (3) ALL 1786 openings of the seven tables (implemented or not) x 16 states, a quarter of them with no handler registered: handlers silent except ED 45 (RETN once) / ED 4D (RETI once) - the unimplemented RETN mirrors ED 55/65/75/5D/6D/7D may at most notify RETN's handler - and RETN/RETI themselves equal to the reference model with and without handlers; half of the histories run without handlers; (4) mode 0 with the bytes of ANY implemented instruction supplied by the device (except HALT, EI/DI, CALL/RST, RETN/RETI, LD A,I/R): registers, flags, memory, port traffic and data accesses equal to the reference model executing the same bytes from memory with both flip-flops cleared (PC-relative results, R and cases touching the bytes at PC not judged); (5) 2..5 acceptances of random kinds in a row on ONE CPU object, the mode-2 table entry rewritten and the memory object sometimes replaced in between, handlers left with or without RETN/RETI: each acceptance judged on what memory holds now. Distinct = distinct single-step cases (control, data) + distinct history shapes (event-kind sequences)")
	c.R.Assume("mode 0: the pushed return address is not judged here (C07's subject); requests with empty data in mode 0/2 or IM outside 0..2 get no verdict (C12)")
	if len(cells) < 48 {
		c.R.Inconclusive(fmt.Sprintf("only %d of 48 control cells observed", len(cells)))
	}
}
