// Package props holds one monitor/oracle per property.
package props

import (
	"fmt"
	"os"
	"runtime"
	"strconv"
	"sync"
	"sync/atomic"
	"time"

	"github.com/koron-go/z80"
	"github.com/koron-go/z80/verif/mon"
	"github.com/koron-go/z80/verif/ref"
)

// Ctx is what every property check receives.
type Ctx struct {
	Tier   string // "quick" | "thorough"
	Seed   int64
	Replay string // replay file path, or ""
	Self   string // path of the vcheck binary (for worker re-execution)
	Tmp    string // scratch directory
	R      *mon.Report
}

func (c *Ctx) Thorough() bool { return c.Tier == "thorough" }

// Pick returns q in the quick tier and t in the thorough tier; the optional
// env var VERIF_SCALE (a float) scales both (used for mutant triage only).
func (c *Ctx) Pick(q, t int) int {
	n := q
	if c.Thorough() {
		n = t
	}
	if s := os.Getenv("VERIF_SCALE"); s != "" {
		if f, err := strconv.ParseFloat(s, 64); err == nil && f > 0 {
			n = int(float64(n) * f)
			if n < 1 {
				n = 1
			}
		}
	}
	return n
}

func Workers() int {
	n := runtime.NumCPU()
	if n > 16 {
		n = 16
	}
	if n < 1 {
		n = 1
	}
	return n
}

// progress bookkeeping for the stall watchdog (see StartStallWatchdog)
var (
	shardsDone   atomic.Int64
	parallelLive atomic.Int64
)

// StartStallWatchdog ends the process as INCONCLUSIVE (exit 3) when no Parallel
// shard has finished for the given time while a Parallel section is running: a
// Step that loops without returning inside a sweep would otherwise hold the
// check until the outer wall-clock watchdog fires.  Shards normally take
// seconds; the verdict is never a violation.
func StartStallWatchdog(prop string, limit time.Duration) {
	go func() {
		last := int64(-1)
		var since time.Time
		for {
			time.Sleep(5 * time.Second)
			if parallelLive.Load() == 0 {
				last = -1
				continue
			}
			d := shardsDone.Load()
			if d != last {
				last = d
				since = time.Now()
				continue
			}
			if time.Since(since) > limit {
				fmt.Printf("INCONCLUSIVE property=%s no work unit finished for %s (a Step or Run may not be returning; see C12)\n", prop, limit)
				os.Exit(3)
			}
		}
	}()
}

// WorkerPanic, when set, is asked what to do with a panic that escaped a
// Parallel work unit (true: the unit is abandoned and the run goes on).  Every
// unit owns its monitors exclusively, so on code that keeps CPUs apart this
// never happens; an emulator change that lets one CPU write through another
// CPU's memory can corrupt a monitor's bookkeeping after the violation itself
// has been recorded.
var WorkerPanic func(shard int, p interface{}) bool

// Parallel runs fn(worker, shard) for shard in [0,n) on Workers() goroutines.
func Parallel(n int, fn func(shard int)) {
	inner := fn
	fn = func(s int) {
		defer func() {
			if p := recover(); p != nil {
				if WorkerPanic == nil || !WorkerPanic(s, p) {
					panic(p)
				}
			}
		}()
		inner(s)
	}
	parallelLive.Add(1)
	defer parallelLive.Add(-1)
	var wg sync.WaitGroup
	ch := make(chan int, n)
	for i := 0; i < n; i++ {
		ch <- i
	}
	close(ch)
	for w := 0; w < Workers(); w++ {
		wg.Add(1)
		go func() {
			defer wg.Done()
			for s := range ch {
				fn(s)
				shardsDone.Add(1)
			}
		}()
	}
	wg.Wait()
}

// ---------------------------------------------------------------------------
// state conversion

// ToRef copies emulator state into a reference-model CPU.
func ToRef(s *z80.States, halted bool) ref.CPU {
	return ref.CPU{
		A: s.AF.Hi, F: s.AF.Lo, B: s.BC.Hi, C: s.BC.Lo, D: s.DE.Hi, E: s.DE.Lo, H: s.HL.Hi, L: s.HL.Lo,
		A2: s.Alternate.AF.Hi, F2: s.Alternate.AF.Lo, B2: s.Alternate.BC.Hi, C2: s.Alternate.BC.Lo,
		D2: s.Alternate.DE.Hi, E2: s.Alternate.DE.Lo, H2: s.Alternate.HL.Hi, L2: s.Alternate.HL.Lo,
		I: s.IR.Hi, R: s.IR.Lo, IX: s.IX, IY: s.IY, SP: s.SP, PC: s.PC,
		IFF1: s.IFF1, IFF2: s.IFF2, IM: s.IM, Halted: halted,
	}
}

// FromRef converts back.
func FromRef(c *ref.CPU) z80.States {
	var s z80.States
	s.AF = z80.Register{Hi: c.A, Lo: c.F}
	s.BC = z80.Register{Hi: c.B, Lo: c.C}
	s.DE = z80.Register{Hi: c.D, Lo: c.E}
	s.HL = z80.Register{Hi: c.H, Lo: c.L}
	s.Alternate.AF = z80.Register{Hi: c.A2, Lo: c.F2}
	s.Alternate.BC = z80.Register{Hi: c.B2, Lo: c.C2}
	s.Alternate.DE = z80.Register{Hi: c.D2, Lo: c.E2}
	s.Alternate.HL = z80.Register{Hi: c.H2, Lo: c.L2}
	s.IR = z80.Register{Hi: c.I, Lo: c.R}
	s.IX, s.IY, s.SP, s.PC = c.IX, c.IY, c.SP, c.PC
	s.IFF1, s.IFF2, s.IM = c.IFF1, c.IFF2, c.IM
	return s
}

// Arch returns the architectural part of a States value: the fields the properties talk
// about.  A maintainer may add further public fields to States (an EI latch, MEMPTR, a Q
// latch ...); comparisons against an oracle-built expectation ignore such fields, while
// emulator-vs-emulator (twin) comparisons keep comparing the whole struct.
func Arch(s z80.States) z80.States {
	var o z80.States
	o.GPR, o.SPR, o.Alternate = s.GPR, s.SPR, s.Alternate
	o.IFF1, o.IFF2, o.IM = s.IFF1, s.IFF2, s.IM
	return o
}

// StateJSON renders a States value for witnesses.
type StateJSON struct {
	AF, BC, DE, HL     string
	AF2, BC2, DE2, HL2 string
	IX, IY, SP, PC     string
	I, R               string
	IFF1, IFF2         bool
	IM                 int
	HALT               bool
}

func h16(v uint16) string { return fmt.Sprintf("%04X", v) }
func h8(v uint8) string   { return fmt.Sprintf("%02X", v) }

func DumpState(s *z80.States, halt bool) StateJSON {
	return StateJSON{
		AF: h16(s.AF.U16()), BC: h16(s.BC.U16()), DE: h16(s.DE.U16()), HL: h16(s.HL.U16()),
		AF2: h16(s.Alternate.AF.U16()), BC2: h16(s.Alternate.BC.U16()),
		DE2: h16(s.Alternate.DE.U16()), HL2: h16(s.Alternate.HL.U16()),
		IX: h16(s.IX), IY: h16(s.IY), SP: h16(s.SP), PC: h16(s.PC),
		I: h8(s.IR.Hi), R: h8(s.IR.Lo), IFF1: s.IFF1, IFF2: s.IFF2, IM: s.IM, HALT: halt,
	}
}

func HexBytes(b []uint8) string {
	s := ""
	for i, x := range b {
		if i > 0 {
			s += " "
		}
		s += fmt.Sprintf("%02X", x)
	}
	return s
}

func DumpAccesses(as []mon.Access) []string {
	out := make([]string, 0, len(as))
	for _, a := range as {
		out = append(out, fmt.Sprintf("%c %04X=%02X", a.Kind, a.Addr, a.Val))
	}
	return out
}

// ---------------------------------------------------------------------------
// boundary-biased data generation (DESIGN §2.4)

var edge16 = []uint16{0x0000, 0x0001, 0x00ff, 0x0100, 0x7fff, 0x8000, 0xfffe, 0xffff}

// Ptr16 draws a 16-bit value: an edge value, a value near one of the given
// anchors (aliasing / overlap), or uniform.
func Ptr16(r *mon.Rng, anchors ...uint16) uint16 {
	switch r.Intn(8) {
	case 0, 1:
		return edge16[r.Intn(len(edge16))]
	case 2, 3:
		if len(anchors) > 0 {
			return anchors[r.Intn(len(anchors))] + uint16(r.Intn(9)) - 4
		}
		return edge16[r.Intn(len(edge16))] + uint16(r.Intn(7)) - 3
	default:
		return r.U16()
	}
}

// RandStates draws a complete pre-state.  PC is chosen so that a short
// instruction straddles FFFF->0000 in about 1/8 of cases.
func RandStates(r *mon.Rng) z80.States {
	var s z80.States
	switch r.Intn(8) {
	case 0:
		s.PC = 0xfffc + uint16(r.Intn(4))
	case 1:
		s.PC = edge16[r.Intn(len(edge16))]
	default:
		s.PC = r.U16()
	}
	s.SP = Ptr16(r, s.PC)
	s.AF.SetU16(r.U16())
	s.BC.SetU16(Ptr16(r, s.PC, s.SP))
	s.DE.SetU16(Ptr16(r, s.PC, s.SP))
	s.HL.SetU16(Ptr16(r, s.PC, s.SP))
	s.IX = Ptr16(r, s.PC, s.SP, s.HL.U16())
	s.IY = Ptr16(r, s.PC, s.SP, s.IX)
	s.Alternate.AF.SetU16(r.U16())
	s.Alternate.BC.SetU16(r.U16())
	s.Alternate.DE.SetU16(r.U16())
	s.Alternate.HL.SetU16(r.U16())
	s.IR.SetU16(r.U16())
	s.IFF1 = r.Bool()
	s.IFF2 = r.Bool()
	s.IM = r.Intn(3)
	return s
}

// ---------------------------------------------------------------------------
// encodings

// Encoding is one opcode encoding of one of the seven decode tables.
type Encoding struct {
	Table  int     // ref.TMain...
	Prefix []uint8 // bytes before the displacement/opcode
	Op     uint8   // selecting opcode byte
}

// Bytes lays the encoding out with displacement d (DDCB/FDCB only).
func (e Encoding) Bytes(d uint8) []uint8 {
	switch e.Table {
	case ref.TDDCB, ref.TFDCB:
		return []uint8{e.Prefix[0], 0xcb, d, e.Op}
	}
	return append(append([]uint8{}, e.Prefix...), e.Op)
}

func (e Encoding) String() string {
	switch e.Table {
	case ref.TDDCB, ref.TFDCB:
		return fmt.Sprintf("%02X CB d %02X", e.Prefix[0], e.Op)
	}
	s := ""
	for _, p := range e.Prefix {
		s += fmt.Sprintf("%02X ", p)
	}
	return s + fmt.Sprintf("%02X", e.Op)
}

// Key is a small integer identifying the encoding.
func (e Encoding) Key() int { return e.Table<<8 | int(e.Op) }

// InScopeEncodings enumerates the implemented encodings (DESIGN §2.3): 930.
func InScopeEncodings() []Encoding {
	var out []Encoding
	for op := 0; op < 256; op++ {
		o := uint8(op)
		if o != 0xcb && o != 0xdd && o != 0xed && o != 0xfd {
			out = append(out, Encoding{ref.TMain, nil, o})
		}
	}
	for op := 0; op < 256; op++ {
		out = append(out, Encoding{ref.TCB, []uint8{0xcb}, uint8(op)})
	}
	for op := 0; op < 256; op++ {
		if ref.EDInScope(uint8(op)) {
			out = append(out, Encoding{ref.TED, []uint8{0xed}, uint8(op)})
		}
	}
	for _, pf := range []struct {
		b uint8
		t int
	}{{0xdd, ref.TDD}, {0xfd, ref.TFD}} {
		for op := 0; op < 256; op++ {
			if ref.DDInScope(uint8(op)) && op != 0xcb {
				out = append(out, Encoding{pf.t, []uint8{pf.b}, uint8(op)})
			}
		}
	}
	for _, pf := range []struct {
		b uint8
		t int
	}{{0xdd, ref.TDDCB}, {0xfd, ref.TFDCB}} {
		for op := 0; op < 256; op++ {
			if op&7 == 6 {
				out = append(out, Encoding{pf.t, []uint8{pf.b}, uint8(op)})
			}
		}
	}
	return out
}

// AllEncodings enumerates every opening of every table, in scope or not
// (main 252 + CB 256 + ED 256 + DD 255 + FD 255 + DDCB 256 + FDCB 256).
func AllEncodings() []Encoding {
	var out []Encoding
	for op := 0; op < 256; op++ {
		o := uint8(op)
		if o != 0xcb && o != 0xdd && o != 0xed && o != 0xfd {
			out = append(out, Encoding{ref.TMain, nil, o})
		}
	}
	for op := 0; op < 256; op++ {
		out = append(out, Encoding{ref.TCB, []uint8{0xcb}, uint8(op)})
		out = append(out, Encoding{ref.TED, []uint8{0xed}, uint8(op)})
		if op != 0xcb {
			out = append(out, Encoding{ref.TDD, []uint8{0xdd}, uint8(op)})
			out = append(out, Encoding{ref.TFD, []uint8{0xfd}, uint8(op)})
		}
		out = append(out, Encoding{ref.TDDCB, []uint8{0xdd}, uint8(op)})
		out = append(out, Encoding{ref.TFDCB, []uint8{0xfd}, uint8(op)})
	}
	return out
}
