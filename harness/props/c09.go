package props

import (
	"fmt"
	"sync"

	"github.com/koron-go/z80"
	"github.com/koron-go/z80/verif/mon"
	"github.com/koron-go/z80/verif/ref"
)

func init() {
	register("C09", "exploration", runC09)
}

// blockSpec is the direct functional specification of a whole block operation,
// written as loops over a byte array.
type blockSpec struct {
	A, F, B, C, D, E, H, L uint8
	Steps                  int
	Finished               bool  // false: stopped because the instruction overwrote itself
	FMask                  uint8 // bits of F to compare
	AltF                   uint8
	HasAlt                 bool
}

func (s *blockSpec) hl() uint16     { return uint16(s.H)<<8 | uint16(s.L) }
func (s *blockSpec) de() uint16     { return uint16(s.D)<<8 | uint16(s.E) }
func (s *blockSpec) bc() uint16     { return uint16(s.B)<<8 | uint16(s.C) }
func (s *blockSpec) setHL(v uint16) { s.H, s.L = uint8(v>>8), uint8(v) }
func (s *blockSpec) setDE(v uint16) { s.D, s.E = uint8(v>>8), uint8(v) }
func (s *blockSpec) setBC(v uint16) { s.B, s.C = uint8(v>>8), uint8(v) }

// runBlockSpec executes op (ED xx at pc) on mem/io until the operation is
// complete or its own bytes are overwritten.
func runBlockSpec(s *blockSpec, op uint8, pc uint16, mem *mon.Mem, io *mon.IO, maxSteps int) {
	dir := uint16(1)
	if op&0x08 != 0 {
		dir = 0xffff
	}
	repeat := op&0x10 != 0
	kind := op & 3
	s.FMask = 0xff
	intact := func() bool { return mem.Data[pc] == 0xed && mem.Data[pc+1] == op }
	for {
		s.Steps++
		more := false
		switch kind {
		case 0: // LD
			v := mem.Data[s.hl()]
			mem.Set(s.de(), v)
			s.setHL(s.hl() + dir)
			s.setDE(s.de() + dir)
			s.setBC(s.bc() - 1)
			n := s.A + v
			f := s.F & (ref.FS | ref.FZ | ref.FC)
			if s.bc() != 0 {
				f |= ref.FPV
			}
			f |= n & ref.F3
			if n&2 != 0 {
				f |= ref.F5
			}
			s.F = f
			more = s.bc() != 0
		case 1: // CP
			v := mem.Data[s.hl()]
			r := s.A - v
			hb := s.A&15 < v&15
			s.setHL(s.hl() + dir)
			s.setBC(s.bc() - 1)
			f := s.F&ref.FC | ref.FN | r&ref.FS
			if r == 0 {
				f |= ref.FZ
			}
			n := r
			if hb {
				f |= ref.FH
				n--
			}
			if s.bc() != 0 {
				f |= ref.FPV
			}
			f |= n & ref.F3
			if n&2 != 0 {
				f |= ref.F5
			}
			s.F = f
			more = s.bc() != 0 && r != 0
		case 2: // IN
			v := io.In(s.C)
			mem.Set(s.hl(), v)
			s.setHL(s.hl() + dir)
			s.B--
			k := int(v) + int(uint8(s.C+uint8(dir)))
			s.ioFlags(v, k)
			more = s.B != 0
		case 3: // OUT
			v := mem.Data[s.hl()]
			s.B--
			io.Out(s.C, v)
			s.setHL(s.hl() + dir)
			k := int(v) + int(s.L)
			s.ioFlags(v, k)
			more = s.B != 0
		}
		if !repeat || !more {
			s.Finished = true
			return
		}
		// a repeating Step: bits 3/5 are taken from PC's high byte on silicon
		// while the instruction repeats; not compared for a cut-off operation
		if !intact() || s.Steps >= maxSteps {
			if kind <= 1 {
				s.FMask = 0xff &^ (ref.F5 | ref.F3)
			}
			return
		}
	}
}

func (s *blockSpec) ioFlags(v uint8, k int) {
	doc := s.F&^(ref.FZ|ref.FN) | ref.FN
	if s.B == 0 {
		doc |= ref.FZ
	}
	sil := s.B & (ref.FS | ref.F5 | ref.F3)
	if s.B == 0 {
		sil |= ref.FZ
	}
	if v&0x80 != 0 {
		sil |= ref.FN
	}
	if k > 255 {
		sil |= ref.FH | ref.FC
	}
	if ref.Parity(uint8(k&7) ^ s.B) {
		sil |= ref.FPV
	}
	s.F = doc
	s.FMask = ref.FZ | ref.FN | ref.FC
	s.HasAlt = true
	s.AltF = sil
}

var c09Counts = []uint16{0, 1, 2, 255, 256, 65535}

// C09 — block instructions as whole operations.
func runC09(c *Ctx) {
	mon.DiscardStdLog()
	nops := c.Pick(20000, 2400000)
	var mu sync.Mutex
	var evals, steps, cut, full64k, overlapN, wrapN, nilION, recycledN int64
	distinct := mon.NewDistinct(2_000_000)
	opsList := []uint8{0xa0, 0xa1, 0xa2, 0xa3, 0xa8, 0xa9, 0xaa, 0xab, 0xb0, 0xb1, 0xb2, 0xb3, 0xb8, 0xb9, 0xba, 0xbb}
	opName := map[uint8]string{0xa0: "LDI", 0xa1: "CPI", 0xa2: "INI", 0xa3: "OUTI", 0xa8: "LDD", 0xa9: "CPD", 0xaa: "IND", 0xab: "OUTD",
		0xb0: "LDIR", 0xb1: "CPIR", 0xb2: "INIR", 0xb3: "OTIR", 0xb8: "LDDR", 0xb9: "CPDR", 0xba: "INDR", 0xbb: "OTDR"}

	Parallel(nops, func(ci int) {
		r := mon.NewRng(mon.Hash(uint64(c.Seed), uint64(ci), 0xC09))
		emu := &mon.Mem{}
		spm := &mon.Mem{}
		op := opsList[ci%len(opsList)]
		kind := op & 3
		rep := op&0x10 != 0
		pre := RandStates(r)
		pc := pre.PC
		// count class
		var cnt uint16
		if r.Intn(2) == 0 {
			cnt = c09Counts[r.Intn(len(c09Counts))]
		} else if r.Intn(4) == 0 {
			cnt = r.U16()
		} else {
			cnt = uint16(1 + r.Intn(600))
		}
		// limit the number of very long operations (each up to 65536 Steps)
		if (cnt == 0 || cnt > 20000) && rep && kind <= 1 && ci%4 != 0 {
			cnt = uint16(1 + r.Intn(300))
		}
		fillSeed := r.U64()
		cpMode := 0
		if kind == 1 {
			cpMode = r.Intn(3) // 0 random memory, 1 A absent, 2 A exactly where BC reaches 0
			if cpMode != 0 {
				bg := r.U8()
				emu.FillByte(bg)
				spm.FillByte(bg)
				a := bg + 1 + uint8(r.Intn(200))
				for a == 0xed || a == op || a == bg {
					a++
				}
				pre.AF.Hi = a
			}
		}
		if cpMode == 0 {
			emu.Fill(fillSeed)
			spm.Fill(fillSeed)
		}
		if kind <= 1 {
			pre.BC.SetU16(cnt)
		} else {
			pre.BC.Hi = uint8(cnt)
			pre.BC.Lo = r.U8()
		}
		// pointers: anywhere, overlapping each other, covering the instruction, wrapping
		hl := Ptr16(r, pc)
		ovl := false
		switch r.Intn(6) {
		case 0:
			hl = pc - uint16(r.Intn(int(cnt%512)+2)) // forward range reaches the instruction
		case 1:
			hl = 0xffff - uint16(r.Intn(8))
		case 2:
			hl = uint16(r.Intn(8))
		}
		pre.HL.SetU16(hl)
		if kind == 0 {
			de := Ptr16(r, pc, hl)
			switch r.Intn(5) {
			case 0, 1:
				de = hl + uint16(r.Intn(7)) - 3 // overlap distance -3..+3
				ovl = true
			case 2:
				de = pc - uint16(r.Intn(int(cnt%512)+2))
			}
			pre.DE.SetU16(de)
		}
		if cpMode == 2 {
			// the matching byte sits exactly where the count runs out
			dir := uint16(1)
			if op&0x08 != 0 {
				dir = 0xffff
			}
			n := uint32(cnt)
			if n == 0 {
				n = 65536
			}
			at := hl + dir*uint16(n-1)
			emu.Place(at, pre.AF.Hi)
			spm.Place(at, pre.AF.Hi)
		}
		emu.Place(pc, 0xed, op)
		spm.Place(pc, 0xed, op)
		ioSeed := r.U64()
		eio := &mon.IO{Seed: ioSeed}
		sio := &mon.IO{Seed: ioSeed}
		// no device attached (CPU.IO == nil): inputs read 0, outputs vanish, and the
		// operation counts, moves and repeats exactly as with a device
		nilIO := kind >= 2 && ci%3 == 0
		sio.Null = nilIO

		// --- specification
		sp := &blockSpec{A: pre.AF.Hi, F: pre.AF.Lo, B: pre.BC.Hi, C: pre.BC.Lo, D: pre.DE.Hi, E: pre.DE.Lo, H: pre.HL.Hi, L: pre.HL.Lo}
		runBlockSpec(sp, op, pc, spm, sio, 70000)

		// --- emulator, Step by Step
		emu.Logging = true
		cpu := z80.CPU{States: pre, Memory: emu, IO: eio}
		if nilIO {
			cpu.IO = nil
		}
		recycled := ci%5 == 0
		if recycled {
			// a recycled CPU object: it has executed every block instruction once on
			// ANOTHER memory and device before; then memory, device and States are assigned
			warm := &mon.Mem{}
			warm.Fill(fillSeed ^ 0x5a5a)
			cpu = z80.CPU{Memory: warm, IO: &mon.IO{Seed: ioSeed ^ 1}}
			for _, wop := range opsList {
				cpu.States = z80.States{}
				cpu.PC, cpu.SP = 0x0100, 0x8000
				cpu.BC.SetU16(0x0302)
				cpu.HL.SetU16(0x4000)
				cpu.DE.SetU16(0x5000)
				warm.Place(0x0100, 0xed, wop)
				cpu.Step()
			}
			cpu.Memory, cpu.IO, cpu.States, cpu.HALT = emu, eio, pre, false
			if nilIO {
				cpu.IO = nil
			}
		}
		nsteps := 0
		bad := ""
		var pan interface{}
		func() {
			defer func() { pan = recover() }()
			for {
				emu.ClearLog()
				nio := len(eio.Log)
				cpu.Step()
				nsteps++
				// exactly one element per Step
				var rd, wr int
				var fetched [2]bool
				for _, a := range emu.Log {
					off := a.Addr - pc
					if a.Kind == 'R' && off < 2 && !fetched[off] {
						fetched[off] = true // the instruction's own two bytes, in any order
						continue
					}
					if a.Kind == 'R' {
						rd++
					} else {
						wr++
					}
				}
				if !fetched[0] || !fetched[1] {
					bad = "instruction bytes not fetched once each"
				}
				pio := len(eio.Log) - nio
				wantRd, wantWr, wantIO := 1, 1, 0
				switch kind {
				case 1:
					wantWr = 0
				case 2:
					wantRd, wantIO = 0, 1
				case 3:
					wantWr, wantIO = 0, 1
				}
				if nilIO {
					wantIO = 0
				}
				if bad == "" && (rd != wantRd || wr != wantWr || pio != wantIO) {
					bad = fmt.Sprintf("a Step performed %d data reads, %d writes, %d port accesses (one element = %d/%d/%d)", rd, wr, pio, wantRd, wantWr, wantIO)
				}
				if cpu.PC == pc+2 {
					break // finished
				}
				if bad == "" && cpu.PC != pc {
					bad = "PC neither on the instruction nor after it"
				}
				if bad != "" || emu.Data[pc] != 0xed || emu.Data[pc+1] != op || nsteps >= 70000 {
					break
				}
				if !rep {
					bad = "non-repeating form left PC on the instruction"
					break
				}
			}
		}()
		mu.Lock()
		evals++
		steps += int64(nsteps)
		if !sp.Finished {
			cut++
		}
		if nsteps >= 65536 {
			full64k++
		}
		if ovl {
			overlapN++
		}
		if nilIO {
			nilION++
		}
		if recycled {
			recycledN++
		}
		if hl > 0xfff0 || hl < 8 {
			wrapN++
		}
		mu.Unlock()
		distinct.Add(mon.Hash(uint64(op), uint64(cnt), uint64(hl), uint64(pre.DE.U16()), uint64(pc)))

		// --- compare
		if pan != nil {
			bad = fmt.Sprintf("panic: %v", pan)
		}
		if bad == "" {
			post := Arch(cpu.States)
			exp := pre
			exp.AF = z80.Register{Hi: sp.A, Lo: sp.F}
			exp.BC = z80.Register{Hi: sp.B, Lo: sp.C}
			exp.DE = z80.Register{Hi: sp.D, Lo: sp.E}
			exp.HL = z80.Register{Hi: sp.H, Lo: sp.L}
			if sp.Finished {
				exp.PC = pc + 2
			} else {
				exp.PC = pc
			}
			exp.IR.Lo = post.IR.Lo
			fOK := (post.AF.Lo^exp.AF.Lo)&sp.FMask == 0 || (sp.HasAlt && post.AF.Lo == sp.AltF)
			post.AF.Lo = exp.AF.Lo
			switch {
			case nsteps != sp.Steps:
				bad = fmt.Sprintf("number of Steps %d, want %d elements", nsteps, sp.Steps)
			case post != exp:
				bad = "final registers / PC"
				if post.BC != exp.BC {
					bad = "final counter"
				} else if post.HL != exp.HL || post.DE != exp.DE {
					bad = "final pointers"
				} else if post.PC != exp.PC {
					bad = "final PC"
				}
			case !fOK:
				bad = "final flags"
			case cpu.HALT:
				bad = "halted"
			case !mon.EqualSeq(eio.Log, sio.Log):
				bad = "port log"
			}
			if bad == "" {
				for _, a := range emu.Dirty(0) {
					if emu.Data[a] != spm.Data[a] {
						bad = "memory image"
					}
				}
				for _, a := range spm.Dirty(0) {
					if emu.Data[a] != spm.Data[a] {
						bad = "memory image"
					}
				}
			}
		}
		if bad != "" {
			sig := bad
			if len(sig) > 30 {
				sig = sig[:30]
			}
			pl := eio.Log
			if len(pl) > 12 {
				pl = pl[:12]
			}
			sl := sio.Log
			if len(sl) > 12 {
				sl = sl[:12]
			}
			c.R.Violation(fmt.Sprintf("C09/%s/%s", opName[op], sig), map[string]interface{}{
				"instruction": opName[op], "what": bad, "pre": DumpState(&pre, false), "post": DumpState(&cpu.States, cpu.HALT),
				"spec":       map[string]string{"A": h8(sp.A), "F": h8(sp.F), "BC": h16(sp.bc()), "DE": h16(sp.de()), "HL": h16(sp.hl()), "f_mask": h8(sp.FMask), "alt_F": h8(sp.AltF)},
				"spec_steps": sp.Steps, "emu_steps": nsteps, "spec_finished": sp.Finished, "mem_seed": fillSeed, "cp_mode": cpMode, "io_seed": ioSeed, "no_io_device": nilIO, "recycled_cpu_object": recycled,
				"emu_ports_head": DumpAccesses(pl), "spec_ports_head": DumpAccesses(sl)})
		}
		if ci < 6 {
			c.R.Sample(map[string]interface{}{"instruction": opName[op], "pre": DumpState(&pre, false), "steps": nsteps, "finished": sp.Finished,
				"post": DumpState(&cpu.States, cpu.HALT)})
		}
	})
	// ---- the bundled memory types handed over directly: a sparse z80.MapMemory (unwritten
	// addresses read C7) and a short z80.DumbMemory (addresses beyond the slice read 0 and
	// ignore writes); whole operations, final registers and memory against the same loop
	// specification run on a model of that memory
	nsparse := c.Pick(4000, 400000)
	var sparseOps int64
	Parallel(nsparse, func(si int) {
		defer func() {
			if pn := recover(); pn != nil {
				c.R.Violation("C09/bundled-memory/panic", map[string]interface{}{"case": si, "panic": fmt.Sprint(pn)})
			}
		}()
		r := mon.NewRng(mon.Hash(uint64(c.Seed), uint64(si), 0xC09B))
		op := []uint8{0xa0, 0xa8, 0xb0, 0xb8, 0xa1, 0xb1, 0xb9, 0xa2, 0xb2, 0xa3, 0xb3, 0xbb}[si%12]
		kind := op & 3
		useMap := si%2 == 0
		short := 0x0800 + r.Intn(0x7000)
		pre := RandStates(r)
		pre.PC = 0x0100 + uint16(r.Intn(0x400))
		pc := pre.PC
		cnt := uint16(1 + r.Intn(300))
		if kind <= 1 {
			pre.BC.SetU16(cnt)
		} else {
			pre.BC.Hi = uint8(cnt)
		}
		pre.HL.SetU16(Ptr16(r, pc))
		pre.DE.SetU16(Ptr16(r, pc, pre.HL.U16()))
		// model of the memory: default value + a few islands of written bytes
		spm := &mon.Mem{}
		var real z80.Memory
		if useMap {
			spm.FillByte(0xc7)
			real = z80.MapMemory{}
		} else {
			spm.FillByte(0x00)
			real = make(z80.DumbMemory, short)
		}
		inRange := func(a uint16) bool { return useMap || int(a) < short }
		place := func(a uint16, v uint8) {
			if inRange(a) {
				spm.Data[a] = v
				real.Set(a, v)
			}
		}
		for k := 0; k < 6; k++ {
			base := pre.HL.U16() + uint16(r.Intn(64)) - 16
			for j := 0; j < r.Intn(12); j++ {
				place(base+uint16(j), r.U8())
			}
		}
		place(pc, 0xed) // the instruction wins over the data islands
		place(pc+1, op)
		if !inRange(pc + 1) {
			return
		}
		ioSeed := r.U64()
		eio, sio := &mon.IO{Seed: ioSeed}, &mon.IO{Seed: ioSeed}
		// specification on the model; writes beyond a short DumbMemory are ignored
		sp := &blockSpec{A: pre.AF.Hi, F: pre.AF.Lo, B: pre.BC.Hi, C: pre.BC.Lo, D: pre.DE.Hi, E: pre.DE.Lo, H: pre.HL.Hi, L: pre.HL.Lo}
		if !useMap {
			// the loop specification writes through mon.Mem.Set: mask writes outside the slice
			// by running it and then restoring the default there (reads of those cells inside
			// the operation must see 0, so do it element-wise: simplest is to refuse cases whose
			// destination leaves the slice)
			dst := sp.de()
			if kind == 2 {
				dst = sp.hl()
			}
			if kind == 0 || kind == 2 {
				lo, hi := int(dst)-int(cnt)-2, int(dst)+int(cnt)+2
				if lo < 0 || hi >= short {
					return
				}
			}
		}
		runBlockSpec(sp, op, pc, spm, sio, 70000)
		cpu := z80.CPU{States: pre, Memory: real, IO: eio}
		nsteps := 0
		for nsteps < 70000 {
			cpu.Step()
			nsteps++
			if cpu.PC != pc || real.Get(pc) != 0xed || real.Get(pc+1) != op {
				break
			}
		}
		mu.Lock()
		sparseOps++
		mu.Unlock()
		bad := ""
		post := Arch(cpu.States)
		exp := pre
		exp.AF = z80.Register{Hi: sp.A, Lo: sp.F}
		exp.BC = z80.Register{Hi: sp.B, Lo: sp.C}
		exp.DE = z80.Register{Hi: sp.D, Lo: sp.E}
		exp.HL = z80.Register{Hi: sp.H, Lo: sp.L}
		exp.PC = pc
		if sp.Finished {
			exp.PC = pc + 2
		}
		exp.IR.Lo = post.IR.Lo
		fOK := (post.AF.Lo^exp.AF.Lo)&sp.FMask == 0 || (sp.HasAlt && post.AF.Lo == sp.AltF)
		post.AF.Lo = exp.AF.Lo
		switch {
		case nsteps != sp.Steps:
			bad = fmt.Sprintf("number of Steps %d, want %d elements", nsteps, sp.Steps)
		case post != exp || !fOK:
			bad = "final registers / flags"
		case !mon.EqualSeq(eio.Log, sio.Log):
			bad = "port log"
		}
		if bad == "" {
			for a := 0; a < 65536; a++ {
				if real.Get(uint16(a)) != spm.Data[a] {
					bad = fmt.Sprintf("memory at %04X = %02X, want %02X", a, real.Get(uint16(a)), spm.Data[a])
					break
				}
			}
		}
		if bad != "" {
			mk := "DumbMemory(short)"
			if useMap {
				mk = "MapMemory(sparse)"
			}
			sig := bad
			if len(sig) > 24 {
				sig = sig[:24]
			}
			c.R.Violation(fmt.Sprintf("C09/bundled-memory/%s/%s/%s", mk, opName[op], sig), map[string]interface{}{
				"what": bad, "memory": mk, "instruction": opName[op], "pre": DumpState(&pre, false), "post": DumpState(&cpu.States, cpu.HALT),
				"spec_steps": sp.Steps, "emu_steps": nsteps, "short_len": short})
		}
	})
	evals += sparseOps
	c.R.Set("operations_on_bundled_memory_types_directly", sparseOps)

	c.R.Set("evaluations", evals)
	c.R.Set("distinct_nontrivial", distinct.N())
	c.R.Set("steps", steps)
	c.R.Set("operations_cut_by_self_overwrite", cut)
	c.R.Set("operations_of_65536_steps", full64k)
	c.R.Set("operations_without_io_device", nilION)
	c.R.Set("operations_on_a_recycled_cpu_object", recycledN)
	c.R.Set("overlapping_copy_cases", overlapN)
	c.R.Set("pointer_wrap_cases", wrapN)
	c.R.Set("exhaustive", false)
	c.R.Set("rule", "each of the 16 block instructions from boundary-biased states: counts BC/B in {0,1,2,255,256,65535} or random, HL/DE anywhere incl. overlap distance -3..+3, ranges running into the instruction itself, wrap at FFFF/0000; for CP forms A absent from the scanned range, present at random, or exactly where the count runs out; random memory and device bytes; a third of the I/O forms run with no device attached (CPU.IO nil: reads 0, writes vanish, counting unchanged); every fifth operation runs on a recycled CPU object that has executed all 16 block instructions on another memory and device before. The emulator is Stepped until PC leaves the instruction (or its bytes are overwritten); per Step exactly one element (bus log) and PC on/after the instruction; at the end registers, documented flags (block-I/O flags documented-or-silicon; bits 3/5 not compared for a cut-off repeat), memory image, port log and number of Steps are compared with a direct loop specification. A second phase runs whole operations on a sparse z80.MapMemory (unwritten cells read C7) and a short z80.DumbMemory handed to the CPU directly, against the same specification on a model of that memory. Distinct = distinct (instruction, count, HL, DE, PC); every operation transfers or compares at least one element")
	c.R.Assume("if an element overwrites the instruction's own bytes the specification stops there too (hardware would fetch the new bytes)")
}
