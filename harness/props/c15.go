package props

import (
	"fmt"
	"sync"

	"github.com/koron-go/z80"
	"github.com/koron-go/z80/verif/mon"
)

func init() {
	register("C15", "exploration", runC15)
}

var c15Lens = []int{0, 1, 2, 255, 256, 257, 32768, 65535, 65536}

type c15op struct {
	Op   string
	Addr int
	Val  int
	N    int
}

func (o c15op) String() string { return fmt.Sprintf("%s(%04X,%02X,n=%d)", o.Op, o.Addr, o.Val, o.N) }

// C15 — DumbMemory, DumbIO, MapMemory against a trivial model.
func runC15(c *Ctx) {
	nseq := c.Pick(5000, 200000)
	var mu sync.Mutex
	var evals, ops, sweeps, panics int64
	distinct := mon.NewDistinct(2_000_000)

	Parallel(nseq, func(si int) {
		r := mon.NewRng(mon.Hash(uint64(c.Seed), uint64(si), 0xC15))
		kind := si % 3 // 0 DumbMemory 1 DumbIO 2 MapMemory
		var trace []c15op
		var lops int64
		fail := func(what string) {
			tr := make([]string, len(trace))
			for i, t := range trace {
				tr[i] = t.String()
			}
			if len(tr) > 60 {
				tr = tr[len(tr)-60:]
			}
			c.R.Violation(fmt.Sprintf("C15/%s/%s", []string{"DumbMemory", "DumbIO", "MapMemory"}[kind], what),
				map[string]interface{}{"what": what, "trace_tail": tr, "shard": si})
		}
		defer func() {
			if p := recover(); p != nil {
				mu.Lock()
				panics++
				mu.Unlock()
				fail(fmt.Sprintf("panic: %v", p))
			}
			mu.Lock()
			evals++
			ops += lops
			mu.Unlock()
		}()
		nops := 1 + r.Intn(200)
		switch kind {
		case 0:
			ln := c15Lens[r.Intn(len(c15Lens))]
			if r.Intn(3) == 0 {
				ln = r.Intn(65537)
			}
			dm := make(z80.DumbMemory, ln)
			model := map[uint16]uint8{}
			addrNear := func() uint16 {
				switch r.Intn(4) {
				case 0:
					return uint16(ln + r.Intn(5) - 3)
				case 1:
					return edge16[r.Intn(len(edge16))]
				}
				return r.U16()
			}
			for i := 0; i < nops; i++ {
				a := addrNear()
				switch r.Intn(4) {
				case 0, 1:
					v := r.U8()
					trace = append(trace, c15op{"Set", int(a), int(v), 0})
					dm.Set(a, v)
					if int(a) < ln {
						model[a] = v
					}
				case 2:
					trace = append(trace, c15op{"Get", int(a), 0, 0})
					got := dm.Get(a)
					if got != model[a] {
						fail(fmt.Sprintf("Get(%04X)=%02X want %02X (len %d)", a, got, model[a], ln))
						return
					}
				case 3:
					// Put: a block lying inside the slice (incl. ending exactly at len)
					if ln == 0 {
						continue
					}
					n := 1 + r.Intn(8)
					if n > ln {
						n = ln
					}
					start := r.Intn(ln - n + 1)
					if r.Intn(3) == 0 {
						start = ln - n // ends exactly at the top
					}
					data := make([]uint8, n)
					for j := range data {
						data[j] = r.U8()
					}
					if r.Intn(3) == 0 && ln >= n {
						// the block is a view of the same memory (moving bytes up or down
						// inside it, possibly overlapping): Put must store the bytes the
						// caller passed, as they were at the time of the call
						src := start + r.Intn(2*n+1) - n
						if src < 0 {
							src = 0
						}
						if src+n > ln {
							src = ln - n
						}
						view := dm[src : src+n]
						copy(data, view) // what the model expects to be stored
						trace = append(trace, c15op{"Put(view of self)", start, src, n})
						ret := dm.Put(uint16(start), view...)
						if len(ret) != ln {
							fail("Put returned a different slice")
							return
						}
						for j, v := range data {
							model[uint16(start+j)] = v
						}
						lops++
						continue
					}
					trace = append(trace, c15op{"Put", start, int(data[0]), n})
					ret := dm.Put(uint16(start), data...)
					if len(ret) != ln {
						fail("Put returned a different slice")
						return
					}
					for j, v := range data {
						model[uint16(start+j)] = v
					}
				}
				lops++
			}
			// full sweep
			for a := 0; a < 65536; a++ {
				if got := dm.Get(uint16(a)); got != model[uint16(a)] {
					fail(fmt.Sprintf("sweep: Get(%04X)=%02X want %02X (len %d)", a, got, model[uint16(a)], ln))
					return
				}
			}
			distinct.Add(mon.Hash(0, uint64(ln), uint64(nops), uint64(si)))
		case 1:
			lens := []int{0, 1, 2, 128, 255, 256}
			ln := lens[r.Intn(len(lens))]
			if r.Intn(3) == 0 {
				ln = r.Intn(257)
			}
			dio := make(z80.DumbIO, ln)
			model := map[uint8]uint8{}
			for i := 0; i < nops; i++ {
				p := r.U8()
				if r.Intn(3) == 0 {
					p = uint8(ln + r.Intn(5) - 3)
				}
				if r.Bool() {
					v := r.U8()
					trace = append(trace, c15op{"Out", int(p), int(v), 0})
					dio.Out(p, v)
					if int(p) < ln {
						model[p] = v
					}
				} else {
					trace = append(trace, c15op{"In", int(p), 0, 0})
					if got := dio.In(p); got != model[p] {
						fail(fmt.Sprintf("In(%02X)=%02X want %02X (len %d)", p, got, model[p], ln))
						return
					}
				}
				lops++
			}
			for p := 0; p < 256; p++ {
				if got := dio.In(uint8(p)); got != model[uint8(p)] {
					fail(fmt.Sprintf("sweep: In(%02X)=%02X want %02X (len %d)", p, got, model[uint8(p)], ln))
					return
				}
			}
			distinct.Add(mon.Hash(1, uint64(ln), uint64(nops), uint64(si)))
		case 2:
			mm := z80.MapMemory{}
			model := map[uint16]uint8{}
			get := func(m map[uint16]uint8, a uint16) uint8 {
				if v, ok := m[a]; ok {
					return v
				}
				return 0xc7
			}
			sweep := func(x z80.MapMemory, m map[uint16]uint8, what string) bool {
				for a := 0; a < 65536; a++ {
					if got := x.Get(uint16(a)); got != get(m, uint16(a)) {
						fail(fmt.Sprintf("%s sweep: Get(%04X)=%02X want %02X", what, a, got, get(m, uint16(a))))
						return false
					}
				}
				return true
			}
			for i := 0; i < nops; i++ {
				a := Ptr16(r)
				switch r.Intn(10) {
				case 0, 1, 2:
					v := r.U8()
					if r.Intn(4) == 0 {
						v = []uint8{0x00, 0xc7}[r.Intn(2)] // values equal to Go's zero / the default
					}
					trace = append(trace, c15op{"Set", int(a), int(v), 0})
					mm.Set(a, v)
					model[a] = v
				case 3, 4:
					trace = append(trace, c15op{"Get", int(a), 0, 0})
					if got := mm.Get(a); got != get(model, a) {
						fail(fmt.Sprintf("Get(%04X)=%02X want %02X", a, got, get(model, a)))
						return
					}
				case 5:
					n := 1 + r.Intn(8)
					if r.Intn(3) == 0 {
						a = uint16(0x10000 - r.Intn(n+1)) // wraps past FFFF
					}
					data := make([]uint8, n)
					for j := range data {
						data[j] = r.U8()
					}
					trace = append(trace, c15op{"Put", int(a), int(data[0]), n})
					ret := mm.Put(a, data...)
					for j, v := range data {
						model[a+uint16(j)] = v
					}
					if len(ret) != len(model) {
						fail("Put did not return the receiver")
						return
					}
				case 6: // Clone then mutate either side
					trace = append(trace, c15op{"Clone", 0, 0, 0})
					cl := mm.Clone()
					if cl == nil || !mm.Equal(cl) || !cl.Equal(mm) {
						fail("Clone is not Equal to the original")
						return
					}
					cmodel := map[uint16]uint8{}
					for k, v := range model {
						cmodel[k] = v
					}
					b := Ptr16(r)
					if r.Bool() {
						cl.Set(b, get(cmodel, b)+1)
						cmodel[b] = get(cmodel, b) + 1
					} else {
						mm.Set(b, get(model, b)+1)
						model[b] = get(model, b) + 1
					}
					if mm.Get(b) == cl.Get(b) {
						fail("Clone shares storage with the original")
						return
					}
					if mm.Equal(cl) || cl.Equal(mm) {
						fail("Equal true for differing contents after Clone+Set")
						return
					}
					if r.Intn(4) == 0 && !sweep(cl, cmodel, "clone") {
						return
					}
				case 7: // Equal against crafted neighbours
					trace = append(trace, c15op{"Equal", 0, 0, 0})
					same := z80.MapMemory{}
					for k, v := range model {
						same[k] = v
					}
					if !mm.Equal(same) || !same.Equal(mm) {
						fail("Equal false for identical contents")
						return
					}
					if len(model) > 0 {
						// same size, different key set; the moved cell holds 00 / C7
						var k0 uint16
						for k := range model {
							k0 = k
							break
						}
						other := z80.MapMemory{}
						for k, v := range model {
							other[k] = v
						}
						nk := k0 + 1
						for {
							if _, ok := model[nk]; !ok {
								break
							}
							nk++
						}
						delete(other, k0)
						other[nk] = model[k0]
						if mm.Equal(other) || other.Equal(mm) {
							fail(fmt.Sprintf("Equal true for different key sets (key %04X moved to %04X, value %02X)", k0, nk, model[k0]))
							return
						}
						// differing value
						dv := z80.MapMemory{}
						for k, v := range model {
							dv[k] = v
						}
						dv[k0]++
						if mm.Equal(dv) || dv.Equal(mm) {
							fail("Equal true for a differing value")
							return
						}
						// missing key
						mk := z80.MapMemory{}
						for k, v := range model {
							if k != k0 {
								mk[k] = v
							}
						}
						if mm.Equal(mk) || mk.Equal(mm) {
							fail("Equal true although a key is missing")
							return
						}
					}
					if mm.Equal(map[uint16]uint8(same)) || mm.Equal(42) || mm.Equal(nil) || mm.Equal(z80.DumbMemory{1}) || mm.Equal(&same) {
						fail("Equal true for a non-MapMemory argument")
						return
					}
				case 8:
					if r.Intn(4) == 0 {
						trace = append(trace, c15op{"Clear", 0, 0, 0})
						mm.Clear()
						model = map[uint16]uint8{}
						if len(mm) != 0 || !mm.Equal(z80.MapMemory{}) {
							fail("Clear did not empty the map")
							return
						}
					}
				case 9: // Set 0 must be distinguishable from absent (default C7)
					trace = append(trace, c15op{"Set0", int(a), 0, 0})
					mm.Set(a, 0)
					model[a] = 0
					if mm.Get(a) != 0 {
						fail("stored 00 reads back as default")
						return
					}
				}
				lops++
			}
			if !sweep(mm, model, "final") {
				return
			}
			distinct.Add(mon.Hash(2, uint64(len(model)), uint64(nops), uint64(si)))
		}
		mu.Lock()
		sweeps++
		mu.Unlock()
		if si < 3 {
			tr := make([]string, 0, 8)
			for i, t := range trace {
				if i >= 8 {
					break
				}
				tr = append(tr, t.String())
			}
			c.R.Sample(map[string]interface{}{"type": []string{"DumbMemory", "DumbIO", "MapMemory"}[kind], "first_ops": tr, "ops": len(trace)})
		}
	})
	// fixed edge cases named by the property
	func() {
		defer func() {
			if p := recover(); p != nil {
				c.R.Violation("C15/edge/panic", map[string]interface{}{"panic": fmt.Sprint(p)})
			}
		}()
		full := make(z80.DumbMemory, 65536)
		full.Put(0xfffe, 0xaa, 0xbb)
		if full.Get(0xfffe) != 0xaa || full.Get(0xffff) != 0xbb {
			c.R.Violation("C15/edge/Put-at-top", map[string]interface{}{"what": "Put(FFFE, AA, BB) on a 64 KiB DumbMemory"})
		}
		img := make([]uint8, 65536)
		for i := range img {
			img[i] = uint8(i*7 + 1)
		}
		full.Put(0, img...)
		for i := range img {
			if full.Get(uint16(i)) != img[i] {
				c.R.Violation("C15/edge/Put-64K", map[string]interface{}{"what": "Put(0, <64 KiB image>)", "addr": i})
				break
			}
		}
		var nilm z80.DumbMemory
		if nilm.Get(0) != 0 || nilm.Get(0xffff) != 0 {
			c.R.Violation("C15/edge/nil-DumbMemory", nil)
		}
		nilm.Set(5, 1)
		var nilio z80.DumbIO
		nilio.Out(3, 1)
		if nilio.In(3) != 0 {
			c.R.Violation("C15/edge/nil-DumbIO", nil)
		}
		// Clear empties a memory of ANY size, in place (all references see it empty)
		for _, n := range []int{0, 1, 255, 1023, 1024, 1025, 4096, 40000, 65536} {
			big := z80.MapMemory{}
			for a := 0; a < n; a++ {
				big.Set(uint16(a*7+3), uint8(a))
			}
			alias := big
			big.Clear()
			evals++
			if len(big) != 0 || len(alias) != 0 || !big.Equal(z80.MapMemory{}) || big.Get(3) != 0xc7 || alias.Get(uint16((n-1)*7+3)) != 0xc7 {
				c.R.Violation("C15/MapMemory/Clear did not empty a large memory", map[string]interface{}{
					"what": "Clear on a MapMemory left cells behind", "cells_before": n, "cells_after": len(big), "Get(0003)": h8(big.Get(3))})
				break
			}
		}
		mm := z80.MapMemory{}.Put(0xffff, 1, 2, 3)
		if mm.Get(0xffff) != 1 || mm.Get(0) != 2 || mm.Get(1) != 3 || mm.Get(2) != 0xc7 {
			c.R.Violation("C15/edge/MapMemory-Put-wrap", nil)
		}
		evals += 5
	}()
	c.R.Set("evaluations", evals)
	c.R.Set("operations", ops)
	c.R.Set("full_sweeps_passed", sweeps)
	c.R.Set("panics", panics)
	c.R.Set("distinct_nontrivial", distinct.N())
	c.R.Set("exhaustive", false)
	c.R.Set("rule", "random operation sequences (1..200 ops) on DumbMemory (lengths 0,1,2,255,256,257,32768,65535,65536 and random; Put blocks inside the slice incl. ending exactly at its top and blocks that are overlapping views of the same memory), DumbIO (lengths 0..256) and MapMemory (Set/Get/Put incl. wrap past FFFF/Clone-then-mutate/Clear/Equal against identical, differing-value, missing-key, same-size-different-key-set and non-MapMemory arguments, values 00 and C7 favoured), each op checked against a map model and each sequence followed by a full sweep of all 65536 addresses / 256 ports; distinct = distinct (type, length, sequence) tuples, every sequence performs at least one operation")
	c.R.Assume("Equal between a nil and an empty MapMemory is not judged (the property speaks of initialised values)")
	c.R.Assume("Put stores the bytes the caller passed as they were at the time of the call, also when the block is an overlapping view of the same DumbMemory (the trivial model takes its argument by value; this tree uses copy(), i.e. memmove)")
}
