//go:build race

package props

const raceEnabled = true
