package props

import (
	"fmt"
	"sync"

	"github.com/koron-go/z80"
	"github.com/koron-go/z80/verif/mon"
)

func init() {
	register("C04", "exploration", runC04)
}

// condition table cc[y] written out from the manual: NZ Z NC C PO PE P M
func c04Cond(y int, f uint8) bool {
	bit := []uint8{0x40, 0x40, 0x01, 0x01, 0x04, 0x04, 0x80, 0x80}[y]
	set := f&bit != 0
	if y&1 == 1 {
		return set
	}
	return !set
}

type c04Case struct {
	Name  string
	Bytes []uint8
	Pre   z80.States
}

// c04Expect is the closed-form specification: expected post-state, expected
// memory writes and expected data reads (besides the instruction bytes).
type c04Expect struct {
	Post   z80.States
	Writes []mon.Access
	Reads  []uint16
	Taken  int // 1 taken, 0 untaken, -1 unconditional
}

func sext(d uint8) uint16 { return uint16(int16(int8(d))) }

func c04Spec(pre z80.States, bs []uint8, rd func(uint16) uint8) (e c04Expect, ok bool) {
	p := pre
	e.Taken = -1
	op := bs[0]
	pc := pre.PC
	nn := func() uint16 { return uint16(bs[1]) | uint16(bs[2])<<8 }
	push := func(v uint16) {
		p.SP--
		e.Writes = append(e.Writes, mon.Access{Kind: 'W', Addr: p.SP, Val: uint8(v >> 8)})
		p.SP--
		e.Writes = append(e.Writes, mon.Access{Kind: 'W', Addr: p.SP, Val: uint8(v)})
	}
	pop := func() uint16 {
		lo := rd(p.SP)
		hi := rd(p.SP + 1)
		e.Reads = append(e.Reads, p.SP, p.SP+1)
		p.SP += 2
		return uint16(hi)<<8 | uint16(lo)
	}
	tk := func(c bool) bool {
		if c {
			e.Taken = 1
		} else {
			e.Taken = 0
		}
		return c
	}
	y := int(op>>3) & 7
	switch {
	case op&0xc7 == 0xc2: // JP cc,nn
		p.PC = pc + 3
		if tk(c04Cond(y, pre.AF.Lo)) {
			p.PC = nn()
		}
	case op == 0xc3:
		p.PC = nn()
	case op&0xe7 == 0x20: // JR cc
		p.PC = pc + 2
		if tk(c04Cond(y-4, pre.AF.Lo)) {
			p.PC = pc + 2 + sext(bs[1])
		}
	case op == 0x18:
		p.PC = pc + 2 + sext(bs[1])
	case op == 0x10: // DJNZ
		p.BC.Hi--
		p.PC = pc + 2
		if tk(p.BC.Hi != 0) {
			p.PC = pc + 2 + sext(bs[1])
		}
	case op&0xc7 == 0xc4: // CALL cc
		p.PC = pc + 3
		if tk(c04Cond(y, pre.AF.Lo)) {
			push(pc + 3)
			p.PC = nn()
		}
	case op == 0xcd:
		push(pc + 3)
		p.PC = nn()
	case op&0xc7 == 0xc0: // RET cc
		p.PC = pc + 1
		if tk(c04Cond(y, pre.AF.Lo)) {
			p.PC = pop()
		}
	case op == 0xc9:
		p.PC = pop()
	case op&0xc7 == 0xc7: // RST
		push(pc + 1)
		p.PC = uint16(y) * 8
	case op == 0xe9:
		p.PC = pre.HL.U16()
	case op == 0xdd && bs[1] == 0xe9:
		p.PC = pre.IX
	case op == 0xfd && bs[1] == 0xe9:
		p.PC = pre.IY
	case op == 0xed && bs[1] == 0x4d: // RETI (IFF1 unchanged or = IFF2: judged by caller)
		p.PC = pop()
	case op == 0xed && bs[1] == 0x45: // RETN
		p.PC = pop()
		p.IFF1 = pre.IFF2
	default:
		return e, false
	}
	e.Post = p
	return e, true
}

func c04Len(bs []uint8) int {
	switch op := bs[0]; {
	case op&0xc7 == 0xc2, op == 0xc3, op&0xc7 == 0xc4, op == 0xcd:
		return 3
	case op&0xe7 == 0x20, op == 0x18, op == 0x10, op == 0xdd, op == 0xfd, op == 0xed:
		return 2
	}
	return 1
}

// C04 — jumps, calls, returns, stack.
func runC04(c *Ctx) {
	mon.DiscardStdLog()
	k := c.Pick(512, 40000)
	var mu sync.Mutex
	var evals, takenN, untakenN, overlapN, wrapN, laws, directN, cowN int64
	distinct := mon.NewDistinct(4_000_000)

	type opdef struct {
		name string
		bs   []uint8
		mode int // 0: all 256 F; 1: all 256 B; 2: plain
		offs bool
	}
	var ops []opdef
	ccn := []string{"NZ", "Z", "NC", "C", "PO", "PE", "P", "M"}
	for y := 0; y < 8; y++ {
		ops = append(ops, opdef{"JP " + ccn[y] + ",nn", []uint8{uint8(0xc2 | y<<3), 0, 0}, 0, false})
		ops = append(ops, opdef{"CALL " + ccn[y] + ",nn", []uint8{uint8(0xc4 | y<<3), 0, 0}, 0, false})
		ops = append(ops, opdef{"RET " + ccn[y], []uint8{uint8(0xc0 | y<<3)}, 0, false})
		ops = append(ops, opdef{fmt.Sprintf("RST %02XH", y*8), []uint8{uint8(0xc7 | y<<3)}, 2, false})
	}
	for y := 4; y < 8; y++ {
		ops = append(ops, opdef{"JR " + ccn[y-4] + ",e", []uint8{uint8(y << 3), 0}, 0, true})
	}
	ops = append(ops,
		opdef{"DJNZ e", []uint8{0x10, 0}, 1, true},
		opdef{"JR e", []uint8{0x18, 0}, 2, true},
		opdef{"JP nn", []uint8{0xc3, 0, 0}, 2, false},
		opdef{"CALL nn", []uint8{0xcd, 0, 0}, 2, false},
		opdef{"RET", []uint8{0xc9}, 2, false},
		opdef{"JP (HL)", []uint8{0xe9}, 2, false},
		opdef{"JP (IX)", []uint8{0xdd, 0xe9}, 2, false},
		opdef{"JP (IY)", []uint8{0xfd, 0xe9}, 2, false},
		opdef{"RETI", []uint8{0xed, 0x4d}, 2, false},
		opdef{"RETN", []uint8{0xed, 0x45}, 2, false},
	)

	Parallel(len(ops), func(oi int) {
		od := ops[oi]
		r := mon.NewRng(mon.Hash(uint64(c.Seed), uint64(oi), 0xC04))
		mem := &mon.Mem{}
		mem.Fill(r.U64())
		mem.Logging = true
		var rc mon.RetCounter
		hn, hi := rc.Handlers()
		var lev, ltk, lutk, lov, lwr, ldirect, lcow int64
		var dm z80.DumbMemory
		var mm z80.MapMemory
		outer := 256
		if od.mode == 2 {
			outer = 16
		}
		for i := 0; i < outer; i++ {
			for j := 0; j < k; j++ {
				if (i*k+j)&4095 == 4095 {
					mem.Fill(r.U64())
				}
				pre := RandStates(r)
				// stack pointer classes incl. overlap with the instruction
				switch r.Intn(8) {
				case 0:
					pre.SP = []uint16{0, 1, 2, 0xffff, 0xfffe}[r.Intn(5)]
				case 1, 2:
					pre.SP = pre.PC + uint16(r.Intn(8)) - 2
				}
				bs := append([]uint8{}, od.bs...)
				switch od.mode {
				case 0:
					pre.AF.Lo = uint8(i)
				case 1:
					pre.BC.Hi = uint8(i)
				}
				if od.offs {
					bs[1] = uint8(j) // all 256 offsets cycle with j
					if od.mode == 2 {
						bs[1] = uint8(i*16 + j)
					}
				} else if len(bs) == 3 {
					t := Ptr16(r, pre.PC, pre.SP)
					if r.Intn(6) == 0 {
						t = []uint16{0x0000, 0xffff}[r.Intn(2)]
					}
					bs[1], bs[2] = uint8(t), uint8(t>>8)
				}
				mem.Reset()
				mem.Place(pre.PC, bs...)
				mark := mem.Mark()
				rc = mon.RetCounter{}
				exp, ok := c04Spec(pre, bs, func(a uint16) uint8 { return mem.Data[a] })
				if !ok {
					continue
				}
				cpu := z80.CPU{States: pre, Memory: mem, RETNHandler: hn, RETIHandler: hi}
				var pan interface{}
				func() {
					defer func() { pan = recover() }()
					cpu.Step()
				}()
				lev++
				ilen := c04Len(bs)
				// collect observations
				var writes []mon.Access
				var dataReads []uint16
				// the instruction's own bytes: each read once, in any order (the order of
				// accesses inside a Step is not part of this property)
				nfetch := 0
				var fetched [4]bool
				for _, a := range mem.Log {
					off := a.Addr - pre.PC
					if a.Kind == 'W' {
						writes = append(writes, a)
					} else if off < uint16(ilen) && !fetched[off] {
						fetched[off] = true
						nfetch++
					} else {
						dataReads = append(dataReads, a.Addr)
					}
				}
				post := Arch(cpu.States)
				post.IR.Lo = exp.Post.IR.Lo
				isRETI := bs[0] == 0xed && bs[1] == 0x4d
				if isRETI && post.IFF1 == post.IFF2 {
					post.IFF1 = exp.Post.IFF1 // silicon variant accepted
				}
				bad := ""
				switch {
				case pan != nil:
					bad = fmt.Sprintf("panic: %v", pan)
				case post != exp.Post:
					switch {
					case post.PC != exp.Post.PC:
						bad = "PC"
					case post.SP != exp.Post.SP:
						bad = "SP"
					case post.AF.Lo != exp.Post.AF.Lo:
						bad = "flag changed"
					default:
						bad = "other register changed"
					}
				case cpu.HALT:
					bad = "halted"
				case !mon.EqualSeq(writes, exp.Writes) && !mon.EqualMultiset(writes, exp.Writes):
					bad = "stack writes"
				case nfetch != ilen:
					bad = "instruction bytes not each fetched once"
				case len(dataReads) != len(exp.Reads):
					bad = "data reads (untaken forms must not touch stack or target)"
				}
				if bad == "" {
					for x := range dataReads {
						found := false
						for y := range exp.Reads {
							if exp.Reads[y] == dataReads[x] {
								found = true
							}
						}
						if !found {
							bad = "data read at unexpected address"
						}
					}
				}
				if bad == "" {
					// final memory image: exactly the expected writes landed
					for _, w := range exp.Writes {
						if mem.Data[w.Addr] != w.Val {
							// a later write of the same Step may legitimately
							// overwrite (SP wrap onto itself is impossible for 2 bytes)
							bad = "stack bytes in memory"
						}
					}
					for _, a := range mem.Dirty(mark) {
						hit := false
						for _, w := range exp.Writes {
							if w.Addr == a {
								hit = true
							}
						}
						if !hit {
							bad = "unexpected memory write"
						}
					}
				}
				if bad == "" {
					wantN, wantI := 0, 0
					if bs[0] == 0xed && bs[1] == 0x45 {
						wantN = 1
					}
					if isRETI {
						wantI = 1
					}
					if rc.RETN != wantN || rc.RETI != wantI {
						bad = "RETN/RETI handler notification count"
					}
				}
				switch exp.Taken {
				case 1:
					ltk++
				case 0:
					lutk++
				}
				ov := false
				for _, w := range exp.Writes {
					if w.Addr-pre.PC < uint16(ilen) {
						ov = true
					}
				}
				if ov {
					lov++
				}
				if pre.PC > 0xfffc || pre.SP < 2 || pre.SP == 0xffff {
					lwr++
				}
				if j < 4 || (i*k+j)%3 == 0 {
					distinct.Add(mon.Hash(uint64(oi), uint64(i), uint64(exp.Taken+1), uint64(pre.PC)<<16|uint64(pre.SP), uint64(bs[len(bs)-1])))
				}
				// every 4th case again on a 64 KiB z80.DumbMemory / z80.MapMemory handed to
				// the CPU directly: the outcome must not depend on the memory's type
				if bad == "" && (i*k+j)%4 == 1 {
					useMap := (i*k+j)%8 == 5
					if dm == nil {
						dm = make(z80.DumbMemory, 65536)
						mm = make(z80.MapMemory, 65536)
						for a := 0; a < 65536; a++ {
							dm[a] = 0
							mm[uint16(a)] = 0
						}
					}
					// the instruction, its neighbourhood and the stack bytes are all the
					// closed form depends on: copy the bytes the monitored run saw
					var direct z80.Memory = dm
					if useMap {
						direct = mm
					}
					var touched []uint16
					put := func(a uint16, v uint8) {
						direct.Set(a, v)
						touched = append(touched, a)
					}
					for _, a := range mem.Log {
						if a.Kind == 'R' {
							put(a.Addr, a.Val)
						}
					}
					for k2 := 0; k2 < 4; k2++ {
						put(pre.PC+uint16(k2), mem.Data[pre.PC+uint16(k2)])
					}
					for _, a := range mem.Log { // a read after the Step's own write must not leak in
						if a.Kind == 'W' {
							put(a.Addr, mem.Data[a.Addr]^0xff)
						}
					}
					// the instruction bytes as they were before the Step
					for k2, b := range bs {
						put(pre.PC+uint16(k2), b)
					}
					dcpu := z80.CPU{States: pre, Memory: direct}
					var dpan interface{}
					func() {
						defer func() { dpan = recover() }()
						dcpu.Step()
					}()
					dpost := Arch(dcpu.States)
					dpost.IR.Lo = exp.Post.IR.Lo
					if isRETI && dpost.IFF1 == dpost.IFF2 {
						dpost.IFF1 = exp.Post.IFF1
					}
					switch {
					case dpan != nil:
						bad = fmt.Sprintf("panic on a bundled memory type: %v", dpan)
					case dpost != exp.Post && len(exp.Reads) == 0:
						bad = "outcome differs on a bundled memory type handed over directly"
					}
					if bad == "" {
						for _, w := range exp.Writes {
							if direct.Get(w.Addr) != w.Val {
								bad = "stack bytes differ on a bundled memory type handed over directly"
							}
						}
					}
					for _, a := range touched {
						direct.Set(a, 0)
					}
					for _, w := range exp.Writes {
						direct.Set(w.Addr, 0)
					}
					ldirect++
				}
				// every 8th pushing case again on a frozen copy-on-write image: the first write
				// makes the host attach a private copy to CPU.Memory from inside Set; the second
				// stack byte must land in that copy too (both bytes at SP-1 / SP-2 of the memory
				// attached when the Step returns)
				if bad == "" && len(exp.Writes) == 2 && (i*k+j)%8 == 2 {
					mem.Reset()
					mem.Place(pre.PC, bs...)
					cpost, over, stale, cpan := stepCOW(mem, pre, 0)
					cp := Arch(cpost)
					cp.IR.Lo = exp.Post.IR.Lo
					switch {
					case cpan != nil:
						bad = fmt.Sprintf("panic on a copy-on-write memory: %v", cpan)
					case cp != exp.Post:
						bad = "outcome differs on a copy-on-write memory"
					case stale != 0:
						bad = "a stack byte was written to the memory object that was attached when the instruction started, not to the one the host attached during the first write (copy-on-write)"
					default:
						for _, w := range exp.Writes {
							if v, ok := over[w.Addr]; !ok || v != w.Val {
								bad = "stack bytes incomplete in the memory attached after a copy-on-write switch"
							}
						}
					}
					lcow++
				}
				if bad != "" {
					c.R.Violation(fmt.Sprintf("C04/%s/%s", od.name, bad), map[string]interface{}{
						"instruction": od.name, "bytes": HexBytes(bs), "what": bad, "pre": DumpState(&pre, false),
						"post": DumpState(&cpu.States, cpu.HALT), "want": DumpState(&exp.Post, false),
						"bus": DumpAccesses(mem.Log), "want_writes": DumpAccesses(exp.Writes), "stack_overlaps_instruction": ov})
				}
				if i == 3 && j == 1 && oi%9 == 0 {
					c.R.Sample(map[string]interface{}{"instruction": od.name, "bytes": HexBytes(bs), "pre": DumpState(&pre, false),
						"post": DumpState(&cpu.States, cpu.HALT), "bus": DumpAccesses(mem.Log)})
				}
			}
		}
		mu.Lock()
		evals += lev
		takenN += ltk
		untakenN += lutk
		overlapN += lov
		wrapN += lwr
		directN += ldirect
		cowN += lcow
		mu.Unlock()
	})

	// two-Step laws
	nl := c.Pick(20000, 2000000)
	Parallel(16, func(sh int) {
		r := mon.NewRng(mon.Hash(uint64(c.Seed), uint64(sh), 0xC04B))
		mem := &mon.Mem{}
		mem.Fill(r.U64())
		var ll int64
		for i := 0; i < nl/16; i++ {
			pre := RandStates(r)
			if r.Intn(4) == 0 {
				pre.SP = []uint16{0, 1, 2, 0xffff, 0xfffe}[r.Intn(5)]
			}
			mem.Reset()
			kind := r.Intn(8)
			dist := func(a, b uint16) uint16 { // circular distance
				d := a - b
				if d > 0x8000 {
					d = -d
				}
				return d
			}
			if kind == 7 {
				// CALL nn ; <the stack slot changes> ; RET  — RET must read the word that is
				// at (SP) now, whatever wrote it: a store through HL, EX (SP),HL, or the host
				// editing memory between two Steps
				nn := Ptr16(r, pre.PC)
				if dist(nn, pre.SP) < 8 || dist(nn, pre.PC) < 8 || dist(pre.SP, pre.PC) < 8 {
					continue
				}
				how := r.Intn(4)
				mem.Place(pre.PC, 0xcd, uint8(nn), uint8(nn>>8))
				cpu := z80.CPU{States: pre, Memory: mem}
				cpu.Step()
				slot := cpu.SP
				switch how {
				case 0: // host edits the slot
					mem.Place(slot, r.U8(), r.U8())
					mem.Place(nn, 0xc9)
				case 1: // LD (HL),n on the low byte
					cpu.HL.SetU16(slot)
					mem.Place(nn, 0x36, r.U8(), 0xc9)
					cpu.Step()
				case 2: // EX (SP),HL
					cpu.HL.SetU16(r.U16())
					mem.Place(nn, 0xe3, 0xc9)
					cpu.Step()
				case 3: // INC (HL) on the high byte
					cpu.HL.SetU16(slot + 1)
					mem.Place(nn, 0x34, 0xc9)
					cpu.Step()
				}
				want := uint16(mem.Data[slot]) | uint16(mem.Data[slot+1])<<8
				if mem.Data[cpu.PC] != 0xc9 {
					continue // the edit hit the code itself
				}
				cpu.Step()
				ll++
				if cpu.PC != want || cpu.SP != pre.SP {
					c.R.Violation(fmt.Sprintf("C04/law/CALL-edit-RET/%d", how), map[string]interface{}{
						"what": "RET did not return to the word stored at (SP)", "pre": DumpState(&pre, false), "nn": h16(nn),
						"slot_edit":  []string{"host edits memory", "LD (HL),n", "EX (SP),HL", "INC (HL)"}[how],
						"word_at_SP": h16(want), "after_ret": DumpState(&cpu.States, cpu.HALT)})
				}
			} else if kind == 0 {
				// CALL nn ; RET
				nn := Ptr16(r, pre.PC)
				// the pushed bytes must not land on the RET opcode or on the CALL's own successor logic
				if dist(nn, pre.SP) < 4 || dist(nn, pre.PC) < 4 {
					continue
				}
				mem.Place(pre.PC, 0xcd, uint8(nn), uint8(nn>>8))
				mem.Place(nn, 0xc9)
				cpu := z80.CPU{States: pre, Memory: mem}
				cpu.Step()
				mid := cpu.States
				cpu.Step()
				ll++
				want := pre
				want.PC = pre.PC + 3
				got := Arch(cpu.States)
				got.IR.Lo = want.IR.Lo
				if got != want || mid.PC != nn || mid.SP != pre.SP-2 {
					c.R.Violation("C04/law/CALL-RET", map[string]interface{}{"pre": DumpState(&pre, false), "nn": h16(nn),
						"after_call": DumpState(&mid, false), "after_ret": DumpState(&cpu.States, cpu.HALT)})
				}
			} else {
				// PUSH qq ; POP qq  for BC DE HL AF IX IY
				var prog []uint8
				switch kind {
				case 1:
					prog = []uint8{0xc5, 0xc1}
				case 2:
					prog = []uint8{0xd5, 0xd1}
				case 3:
					prog = []uint8{0xe5, 0xe1}
				case 4:
					prog = []uint8{0xf5, 0xf1}
				case 5:
					prog = []uint8{0xdd, 0xe5, 0xdd, 0xe1}
				case 6:
					prog = []uint8{0xfd, 0xe5, 0xfd, 0xe1}
				}
				// stack bytes must not overwrite the POP instruction
				if dist(pre.SP, pre.PC) < 8 {
					continue
				}
				mem.Place(pre.PC, prog...)
				cpu := z80.CPU{States: pre, Memory: mem}
				cpu.Step()
				mid := cpu.States
				// also: PUSH then POP into a *different* pair proves the bytes round-trip via memory
				cpu.Step()
				ll++
				want := pre
				want.PC = pre.PC + uint16(len(prog))
				got := Arch(cpu.States)
				got.IR.Lo = want.IR.Lo
				hiB, loB := mem.Data[pre.SP-1], mem.Data[pre.SP-2]
				var q uint16
				switch kind {
				case 1:
					q = pre.BC.U16()
				case 2:
					q = pre.DE.U16()
				case 3:
					q = pre.HL.U16()
				case 4:
					q = pre.AF.U16()
				case 5:
					q = pre.IX
				case 6:
					q = pre.IY
				}
				if got != want || mid.SP != pre.SP-2 || hiB != uint8(q>>8) || loB != uint8(q) {
					c.R.Violation(fmt.Sprintf("C04/law/PUSH-POP/%d", kind), map[string]interface{}{"program": HexBytes(prog), "pre": DumpState(&pre, false),
						"after_push": DumpState(&mid, false), "after_pop": DumpState(&cpu.States, cpu.HALT),
						"stack_hi": h8(hiB), "stack_lo": h8(loB)})
				}
			}
			if i%4 == 0 {
				distinct.Add(mon.Hash(0x1a, uint64(kind), uint64(pre.SP), uint64(pre.PC), uint64(i)))
			}
		}
		mu.Lock()
		laws += ll
		mu.Unlock()
	})

	// the same transfers when the instruction is supplied by a mode-0 interrupting device
	// (target and condition come from the supplied bytes, never from the bytes at PC)
	var im0N, im0Skipped int64
	{
		r := mon.NewRng(uint64(c.Seed) ^ 0xC04D)
		mem := &mon.Mem{}
		mem.Fill(r.U64())
		mem.Logging = true
		n0 := c.Pick(64, 20000)
		for _, od := range ops {
			op := od.bs[0]
			isJP := op == 0xc3 || op&0xc7 == 0xc2
			isCALL := op == 0xcd || op&0xc7 == 0xc4
			isRST := op&0xc7 == 0xc7
			isRET := op == 0xc9 || op&0xc7 == 0xc0
			isJPHL := op == 0xe9
			if !(isJP || isCALL || isRST || isRET || isJPHL) || len(od.bs) > 3 {
				continue
			}
			for i := 0; i < n0; i++ {
				pre := RandStates(r)
				pre.IM, pre.IFF1 = 0, true
				pre.AF.Lo = uint8(i)
				t := Ptr16(r, pre.PC, pre.SP)
				bs := append([]uint8(nil), od.bs...)
				if len(bs) == 3 {
					bs[1], bs[2] = uint8(t), uint8(t>>8)
				}
				mem.Reset()
				for k, b := range bs {
					mem.Place(pre.PC+uint16(k), ^b) // the interrupted program holds something else there
				}
				// keep the stack clear of the bytes at PC (this implementation overlays them)
				if d := pre.SP - pre.PC; d < 8 || d > 0xfff8 {
					pre.SP += 0x100
				}
				spWord := uint16(mem.Data[pre.SP]) | uint16(mem.Data[pre.SP+1])<<8
				cpu := z80.CPU{States: pre, Memory: mem, Interrupt: z80.IM0Interrupt(bs[0], bs[1:]...)}
				var pan interface{}
				func() {
					defer func() { pan = recover() }()
					cpu.Step()
				}()
				if len(mem.Log) > 0 && mem.Log[0].Kind == 'R' && mem.Log[0].Addr == pre.PC {
					// this Step began by fetching the program's own instruction (an implementation
					// that samples requests at the END of an instruction): whether it may is C06's
					// subject; the supplied instruction cannot be judged in isolation here
					im0Skipped++
					continue
				}
				im0N++
				taken := true
				if op&0xc7 == 0xc2 || op&0xc7 == 0xc4 || op&0xc7 == 0xc0 {
					taken = c04Cond(int(op>>3)&7, pre.AF.Lo)
				}
				got := Arch(cpu.States)
				exp := pre
				exp.IFF1, exp.IFF2 = false, false
				exp.IR.Lo = got.IR.Lo
				l := uint16(len(bs))
				bad := ""
				retOK := func(v uint16) bool { return v == pre.PC || v == pre.PC+l } // C07's subject (known finding there)
				switch {
				case pan != nil:
					bad = fmt.Sprintf("panic: %v", pan)
				case !taken:
					if !retOK(got.PC) {
						bad = "untaken form did not leave PC at the interrupted program"
					}
					exp.PC = got.PC
				case isJP:
					exp.PC = t
				case isJPHL:
					exp.PC = pre.HL.U16()
				case isRET:
					exp.PC, exp.SP = spWord, pre.SP+2
				case isCALL || isRST:
					exp.PC, exp.SP = t, pre.SP-2
					if isRST {
						exp.PC = uint16(op & 0x38)
					}
					pushed := uint16(mem.Data[pre.SP-2]) | uint16(mem.Data[pre.SP-1])<<8
					if !retOK(pushed) {
						bad = "pushed return address is neither the interrupted PC nor the address behind the supplied bytes"
					}
				}
				if bad == "" && got != exp {
					bad = "post-state"
					if got.PC != exp.PC {
						bad = "PC (target must come from the supplied bytes)"
					} else if got.AF.Lo != exp.AF.Lo {
						bad = "flags changed"
					} else if got.SP != exp.SP {
						bad = "SP"
					}
				}
				if bad == "" {
					nw := 0
					for _, a := range mem.Log {
						if a.Kind == 'W' {
							nw++
						}
					}
					wantW := 0
					if taken && (isCALL || isRST) {
						wantW = 2
					}
					if nw != wantW {
						bad = fmt.Sprintf("%d memory writes, want %d", nw, wantW)
					}
				}
				if bad != "" {
					c.R.Violation("C04/mode0-supplied/"+od.name+"/"+bad, map[string]interface{}{
						"what": bad, "supplied_instruction": HexBytes(bs), "pre": DumpState(&pre, false), "post": DumpState(&cpu.States, cpu.HALT),
						"taken": taken, "bus": DumpAccesses(mem.Log), "word_at_SP": h16(spWord)})
					break
				}
			}
		}
	}
	c.R.Set("steps_supplied_by_a_mode0_device", im0N)
	c.R.Set("mode0_steps_not_judged_program_instruction_ran_first", im0Skipped)
	evals += im0N

	c.R.Set("evaluations", evals+laws)
	c.R.Set("single_steps", evals)
	c.R.Set("two_step_laws", laws)
	c.R.Set("distinct_nontrivial", distinct.N())
	c.R.Set("conditional_taken", takenN)
	c.R.Set("conditional_untaken", untakenN)
	c.R.Set("stack_overlaps_instruction_cases", overlapN)
	c.R.Set("wrap_cases", wrapN)
	c.R.Set("cases_also_on_DumbMemory_or_MapMemory_directly", directN)
	c.R.Set("pushing_cases_also_on_a_copy_on_write_memory", cowN)
	c.R.Set("instructions", int64(len(ops)))
	c.R.Set("exhaustive", false)
	c.R.Set("exhaustive_over", "all 256 F for each of the 28 conditional opcodes, all 256 B for DJNZ, all 256 offsets for JR/JR cc/DJNZ; data sampled")
	c.R.Set("rule", "every conditional opcode (8 JP cc, 8 CALL cc, 8 RET cc, 4 JR cc) x all 256 F, DJNZ x all 256 B, relative jumps x all 256 offsets, the unconditional JP/JR/CALL/RET/8 RST/JP (HL)/(IX)/(IY)/RETI/RETN, each x k boundary-biased samples of PC, SP, target and stack contents (PC at FFFD..FFFF, SP in {0,1,2,FFFE,FFFF}, SP within -2..+5 of PC so that pushed bytes overlap the instruction, targets 0000/FFFF); closed-form specification (condition table, address arithmetic mod 65536, push/pop layout) gives the whole expected States, the exact stack writes and the permitted data reads; two-Step laws CALL;RET and PUSH qq;POP qq for BC DE HL AF IX IY, and CALL ; <stack slot changed by the host, LD (HL),n, EX (SP),HL or INC (HL)> ; RET on one CPU object; JP/CALL/RET (cc and plain), RST and JP (HL) once more with the instruction supplied by a mode-0 interrupting device while the bytes at PC hold something else (target, condition, stack layout from the supplied bytes; return address PC or PC+len, see C07). Distinct = distinct (opcode, F or B, taken, PC, SP, operand) hashes (sampled 1/3: lower bound); all cases are non-trivial (each moves PC)")
	c.R.Assume("RETI leaving IFF1 unchanged or copying IFF2 are both accepted (DESIGN 2.3)")
}
