package props

import (
	"fmt"

	"github.com/koron-go/z80"
)

func init() {
	register("C16", "exploration", runC16)
}

// C16 — flag and register accessors.  Complete enumeration through the
// exported API.
func runC16(c *Ctx) {
	var evals int64
	// constants
	consts := []struct {
		name string
		got  z80.Flag
		want uint8
	}{
		{"FlagC", z80.FlagC, 0x01}, {"FlagN", z80.FlagN, 0x02}, {"FlagPV", z80.FlagPV, 0x04},
		{"Flag3", z80.Flag3, 0x08}, {"FlagH", z80.FlagH, 0x10}, {"Flag5", z80.Flag5, 0x20},
		{"FlagZ", z80.FlagZ, 0x40}, {"FlagS", z80.FlagS, 0x80},
	}
	for _, k := range consts {
		evals++
		if uint8(k.got) != k.want {
			c.R.Violation("C16/const/"+k.name, map[string]interface{}{"constant": k.name, "got": h8(uint8(k.got)), "want": h8(k.want)})
		}
	}
	// a GPR with distinctive other registers: nothing else may move
	base := z80.GPR{
		BC: z80.Register{Hi: 0x12, Lo: 0x34}, DE: z80.Register{Hi: 0x56, Lo: 0x78}, HL: z80.Register{Hi: 0x9a, Lo: 0xbc},
	}
	bad := 0
	for mask := 0; mask < 256; mask++ {
		for f := 0; f < 256; f++ {
			for a := 0; a < 256; a++ {
				g := base
				g.AF = z80.Register{Hi: uint8(a), Lo: uint8(f)}
				before := g
				// GetFlag: any named bit set; must not modify
				got := g.GetFlag(z80.Flag(mask))
				evals++
				if got != (f&mask != 0) || g != before {
					bad++
					c.R.Violation("C16/GetFlag", map[string]interface{}{"mask": h8(uint8(mask)), "F": h8(uint8(f)), "A": h8(uint8(a)), "got": got})
				}
				g.SetFlag(z80.Flag(mask))
				evals++
				want := before
				want.AF.Lo = uint8(f | mask)
				if g != want {
					bad++
					c.R.Violation("C16/SetFlag", map[string]interface{}{"mask": h8(uint8(mask)), "F": h8(uint8(f)), "A": h8(uint8(a)), "F_after": h8(g.AF.Lo), "A_after": h8(g.AF.Hi)})
				}
				g = before
				g.ResetFlag(z80.Flag(mask))
				evals++
				want = before
				want.AF.Lo = uint8(f) &^ uint8(mask)
				if g != want {
					bad++
					c.R.Violation("C16/ResetFlag", map[string]interface{}{"mask": h8(uint8(mask)), "F": h8(uint8(f)), "A": h8(uint8(a)), "F_after": h8(g.AF.Lo), "A_after": h8(g.AF.Hi)})
				}
				if bad > 50 {
					goto regs
				}
			}
		}
	}
regs:
	// through the embedding chain CPU -> States -> GPR as a user would call it
	var cpu z80.CPU
	cpu.AF.Lo = 0x00
	cpu.SetFlag(z80.FlagZ | z80.FlagC)
	evals++
	if cpu.AF.Lo != 0x41 || !cpu.GetFlag(z80.FlagZ) || cpu.GetFlag(z80.FlagS) {
		c.R.Violation("C16/via-CPU", map[string]interface{}{"F": h8(cpu.AF.Lo)})
	}
	for v := 0; v < 65536; v++ {
		var r z80.Register
		r.SetU16(uint16(v))
		evals += 2
		if r.U16() != uint16(v) || r.Hi != uint8(v>>8) || r.Lo != uint8(v) {
			c.R.Violation("C16/SetU16-U16", map[string]interface{}{"v": h16(uint16(v)), "Hi": h8(r.Hi), "Lo": h8(r.Lo), "U16": h16(r.U16())})
			break
		}
		r2 := z80.Register{Hi: uint8(v >> 8), Lo: uint8(v)}
		if r2.U16() != uint16(v) {
			c.R.Violation("C16/U16", map[string]interface{}{"Hi": h8(r2.Hi), "Lo": h8(r2.Lo), "U16": h16(r2.U16())})
			break
		}
	}
	c.R.Sample(map[string]interface{}{"call": "GetFlag(FlagZ|FlagC) with F=40", "result": (&z80.GPR{AF: z80.Register{Lo: 0x40}}).GetFlag(z80.FlagZ | z80.FlagC)})
	{
		var rr z80.Register
		rr.SetU16(0xbeef)
		c.R.Sample(map[string]interface{}{"call": "SetU16(BEEF)", "Hi": h8(rr.Hi), "Lo": h8(rr.Lo), "U16": h16(rr.U16())})
		g := z80.GPR{AF: z80.Register{Hi: 0x28, Lo: 0x40}}
		g.SetFlag(z80.FlagC)
		c.R.Sample(map[string]interface{}{"call": "SetFlag(FlagC) with A=28 F=40", "A_after": h8(g.AF.Hi), "F_after": h8(g.AF.Lo)})
		g.ResetFlag(z80.FlagZ | z80.Flag3)
		c.R.Sample(map[string]interface{}{"call": "then ResetFlag(FlagZ|Flag3)", "A_after": h8(g.AF.Hi), "F_after": h8(g.AF.Lo)})
	}
	c.R.Set("evaluations", evals)
	c.R.Set("distinct_nontrivial", evals-8)
	c.R.Set("exhaustive", true)
	c.R.Set("rule", fmt.Sprintf("complete enumeration: 256 masks x 256 F x 256 A for each of GetFlag/SetFlag/ResetFlag (result bit-exact, A, BC, DE, HL untouched), the 8 constants, all 65536 values for SetU16->U16 and Hi/Lo placement; every (accessor, mask, F, A) / (value) tuple is distinct by construction and all are counted except the 8 constant comparisons"))
}
