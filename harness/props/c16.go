package props

import (
	"context"
	"fmt"
	"unsafe"

	"github.com/koron-go/z80"
	"github.com/koron-go/z80/verif/mon"
)

func init() {
	register("C16", "exploration", runC16)
}

// c16Last remembers the arguments of the accessor call in progress (for the panic report).
var c16Last [3]uint8

// C16 — flag and register accessors.  Complete enumeration through the
// exported API.
func runC16(c *Ctx) {
	// an accessor that panics for some mask / value is a violation, not a crash of the monitor
	defer func() {
		if p := recover(); p != nil {
			c.R.Violation("C16/panic", map[string]interface{}{"what": fmt.Sprintf("an accessor panicked: %v", p),
				"last_call": fmt.Sprintf("mask=%02X F=%02X A=%02X", c16Last[0], c16Last[1], c16Last[2])})
			c.R.Set("evaluations", int64(1))
			c.R.Set("distinct_nontrivial", int64(1))
			c.R.Set("rule", "the sweep was cut short by a panicking accessor")
		}
	}()
	var evals int64
	// constants
	consts := []struct {
		name string
		got  z80.Flag
		want uint8
	}{
		{"FlagC", z80.FlagC, 0x01}, {"FlagN", z80.FlagN, 0x02}, {"FlagPV", z80.FlagPV, 0x04},
		{"Flag3", z80.Flag3, 0x08}, {"FlagH", z80.FlagH, 0x10}, {"Flag5", z80.Flag5, 0x20},
		{"FlagZ", z80.FlagZ, 0x40}, {"FlagS", z80.FlagS, 0x80},
	}
	for _, k := range consts {
		evals++
		if uint8(k.got) != k.want {
			c.R.Violation("C16/const/"+k.name, map[string]interface{}{"constant": k.name, "got": h8(uint8(k.got)), "want": h8(k.want)})
		}
	}
	// a GPR with distinctive other registers: nothing else may move
	base := z80.GPR{
		BC: z80.Register{Hi: 0x12, Lo: 0x34}, DE: z80.Register{Hi: 0x56, Lo: 0x78}, HL: z80.Register{Hi: 0x9a, Lo: 0xbc},
	}
	bad := 0
	for mask := 0; mask < 256; mask++ {
		for f := 0; f < 256; f++ {
			for a := 0; a < 256; a++ {
				g := base
				g.AF = z80.Register{Hi: uint8(a), Lo: uint8(f)}
				c16Last = [3]uint8{uint8(mask), uint8(f), uint8(a)}
				before := g
				// GetFlag: any named bit set; must not modify
				got := g.GetFlag(z80.Flag(mask))
				evals++
				if got != (f&mask != 0) || g != before {
					bad++
					c.R.Violation("C16/GetFlag", map[string]interface{}{"mask": h8(uint8(mask)), "F": h8(uint8(f)), "A": h8(uint8(a)), "got": got})
				}
				g.SetFlag(z80.Flag(mask))
				evals++
				want := before
				want.AF.Lo = uint8(f | mask)
				if g != want {
					bad++
					c.R.Violation("C16/SetFlag", map[string]interface{}{"mask": h8(uint8(mask)), "F": h8(uint8(f)), "A": h8(uint8(a)), "F_after": h8(g.AF.Lo), "A_after": h8(g.AF.Hi)})
				}
				g = before
				g.ResetFlag(z80.Flag(mask))
				evals++
				want = before
				want.AF.Lo = uint8(f) &^ uint8(mask)
				if g != want {
					bad++
					c.R.Violation("C16/ResetFlag", map[string]interface{}{"mask": h8(uint8(mask)), "F": h8(uint8(f)), "A": h8(uint8(a)), "F_after": h8(g.AF.Lo), "A_after": h8(g.AF.Hi)})
				}
				if bad > 50 {
					goto regs
				}
			}
		}
	}
regs:
	// through the embedding chain CPU -> States -> GPR as a user would call it
	var cpu z80.CPU
	cpu.AF.Lo = 0x00
	cpu.SetFlag(z80.FlagZ | z80.FlagC)
	evals++
	if cpu.AF.Lo != 0x41 || !cpu.GetFlag(z80.FlagZ) || cpu.GetFlag(z80.FlagS) {
		c.R.Violation("C16/via-CPU", map[string]interface{}{"F": h8(cpu.AF.Lo)})
	}
	// the same accessors reached through a CPU at different moments of its life: fresh,
	// after an ordinary Step, right after a Step that accepted a request (a host trap at
	// 0038h/0066h edits flags there), after Run returned (HALT, break point, cancelled
	// context), and from inside a memory callback in the middle of an instruction
	{
		sweep := func(label string, cpu *z80.CPU) {
			a0 := cpu.AF.Hi
			bcdehl := [3]z80.Register{cpu.BC, cpu.DE, cpu.HL}
			for mask := 0; mask < 256; mask++ {
				for f := 0; f < 256; f += 1 + mask%3 {
					cpu.AF.Lo = uint8(f)
					got := cpu.GetFlag(z80.Flag(mask))
					cpu.SetFlag(z80.Flag(mask))
					fs := cpu.AF.Lo
					cpu.AF.Lo = uint8(f)
					cpu.ResetFlag(z80.Flag(mask))
					fr := cpu.AF.Lo
					evals += 3
					if got != (f&mask != 0) || fs != uint8(f|mask) || fr != uint8(f)&^uint8(mask) || cpu.AF.Hi != a0 || bcdehl != [3]z80.Register{cpu.BC, cpu.DE, cpu.HL} {
						c.R.Violation("C16/via-CPU/"+label, map[string]interface{}{"when": label, "mask": h8(uint8(mask)), "F": h8(uint8(f)),
							"GetFlag": got, "F_after_SetFlag": h8(fs), "F_after_ResetFlag": h8(fr), "A": h8(cpu.AF.Hi), "A_before": h8(a0)})
						return
					}
				}
			}
			// the alternate set is a GPR of its own
			cpu.Alternate.AF.Lo = 0x00
			cpu.Alternate.SetFlag(z80.FlagS | z80.FlagN)
			cpu.Alternate.ResetFlag(z80.FlagN)
			evals += 2
			if cpu.Alternate.AF.Lo != 0x80 || !cpu.Alternate.GetFlag(z80.FlagS) {
				c.R.Violation("C16/via-CPU-alternate/"+label, map[string]interface{}{"when": label, "F_alt": h8(cpu.Alternate.AF.Lo)})
			}
		}
		mk := func(code ...uint8) (*z80.CPU, *mon.Mem) {
			m := &mon.Mem{}
			m.FillByte(0x00)
			m.Place(0x0100, code...)
			cpu := &z80.CPU{Memory: m, IO: &mon.IO{}}
			cpu.PC, cpu.SP = 0x0100, 0x8000
			cpu.AF.Hi = 0x5a
			cpu.BC.SetU16(0x1234)
			cpu.DE.SetU16(0x5678)
			cpu.HL.SetU16(0x9abc)
			return cpu, m
		}
		cpu, _ := mk()
		sweep("fresh", cpu)
		cpu.Step()
		sweep("after an ordinary Step", cpu)
		for _, k := range []struct {
			name string
			im   int
			it   *z80.Interrupt
		}{{"NMI", 1, z80.NMIInterrupt()}, {"mode 1", 1, z80.IM1Interrupt()}, {"mode 2", 2, z80.IM2Interrupt(0x20)}, {"mode 0", 0, z80.IM0Interrupt(0xff)}} {
			cpu, _ = mk()
			cpu.IM, cpu.IFF1, cpu.Interrupt = k.im, true, k.it
			cpu.Step()
			sweep("right after the Step that accepted "+k.name, cpu)
			cpu.Step()
			sweep("one Step into the handler of "+k.name, cpu)
		}
		cpu, _ = mk(0x00, 0x00, 0x76)
		cpu.Run(context.Background())
		sweep("after Run ended on HALT", cpu)
		cpu, _ = mk(0x00, 0x00, 0x00, 0x76)
		cpu.BreakPoints = map[uint16]struct{}{0x0102: {}}
		cpu.Run(context.Background())
		sweep("after Run ended on a break point", cpu)
		cctx, cancel := context.WithCancel(context.Background())
		cancel()
		cpu, _ = mk(0x18, 0xfe)
		cpu.Run(cctx)
		sweep("after Run ended on a cancelled context", cpu)
		// from inside a memory callback: on return from the accessor the bits are as asked
		// (what the instruction does to F afterwards is the instruction's business)
		var m *mon.Mem
		cpu, m = mk(0x34, 0x86, 0xcb, 0x46, 0x76) // INC (HL); ADD A,(HL); BIT 0,(HL); HALT
		cpu.HL.SetU16(0x4000)
		nIn := 0
		m.Hook = func(mm *mon.Mem, a mon.Access) {
			mask := uint8(0x41 + 2*nIn)
			f0 := cpu.AF.Lo
			cpu.SetFlag(z80.Flag(mask))
			fs := cpu.AF.Lo
			cpu.ResetFlag(z80.Flag(mask))
			fr := cpu.AF.Lo
			cpu.AF.Lo = f0
			nIn++
			evals += 2
			if fs != f0|mask || fr != f0&^mask {
				c.R.Violation("C16/via-CPU/inside a memory callback", map[string]interface{}{"when": fmt.Sprintf("inside the memory callback of access %c %04X during a Step", a.Kind, a.Addr),
					"mask": h8(mask), "F": h8(f0), "F_after_SetFlag": h8(fs), "F_after_ResetFlag": h8(fr)})
			}
		}
		for i := 0; i < 4; i++ {
			cpu.Step()
		}
		m.Hook = nil
		if nIn < 8 {
			c.R.Inconclusive("C16: the memory callback was not reached")
		}
	}
	// a GPR at every address alignment (inside a byte-packed record, e.g. a save-state
	// with a few header bytes in front): GPR is made of bytes only, so any address is legal
	{
		var buf [64]byte
		for off := 0; off < 16; off++ {
			g := (*z80.GPR)(unsafe.Pointer(&buf[off]))
			for mask := 0; mask < 256; mask++ {
				for f := 0; f < 256; f++ {
					for i := range buf {
						buf[i] = 0xa5
					}
					g.AF = z80.Register{Hi: 0x3c, Lo: uint8(f)}
					got := g.GetFlag(z80.Flag(mask))
					g.SetFlag(z80.Flag(mask))
					fs := g.AF.Lo
					g.AF.Lo = uint8(f)
					g.ResetFlag(z80.Flag(mask))
					fr := g.AF.Lo
					evals += 3
					ok := got == (f&mask != 0) && fs == uint8(f|mask) && fr == uint8(f)&^uint8(mask) && g.AF.Hi == 0x3c
					for i := range buf {
						if i != off && i != off+1 && buf[i] != 0xa5 {
							ok = false
						}
					}
					if !ok {
						c.R.Violation("C16/GPR-at-odd-address", map[string]interface{}{"address_mod_16": int(uintptr(unsafe.Pointer(g)) % 16), "offset_in_record": off,
							"mask": h8(uint8(mask)), "F": h8(uint8(f)), "GetFlag": got, "F_after_SetFlag": h8(fs), "F_after_ResetFlag": h8(fr), "A": h8(g.AF.Hi)})
						goto alignDone
					}
				}
			}
		}
	alignDone:
	}
	for v := 0; v < 65536; v++ {
		var r z80.Register
		r.SetU16(uint16(v))
		evals += 2
		if r.U16() != uint16(v) || r.Hi != uint8(v>>8) || r.Lo != uint8(v) {
			c.R.Violation("C16/SetU16-U16", map[string]interface{}{"v": h16(uint16(v)), "Hi": h8(r.Hi), "Lo": h8(r.Lo), "U16": h16(r.U16())})
			break
		}
		r2 := z80.Register{Hi: uint8(v >> 8), Lo: uint8(v)}
		if r2.U16() != uint16(v) {
			c.R.Violation("C16/U16", map[string]interface{}{"Hi": h8(r2.Hi), "Lo": h8(r2.Lo), "U16": h16(r2.U16())})
			break
		}
	}
	c.R.Sample(map[string]interface{}{"call": "GetFlag(FlagZ|FlagC) with F=40", "result": (&z80.GPR{AF: z80.Register{Lo: 0x40}}).GetFlag(z80.FlagZ | z80.FlagC)})
	{
		var rr z80.Register
		rr.SetU16(0xbeef)
		c.R.Sample(map[string]interface{}{"call": "SetU16(BEEF)", "Hi": h8(rr.Hi), "Lo": h8(rr.Lo), "U16": h16(rr.U16())})
		g := z80.GPR{AF: z80.Register{Hi: 0x28, Lo: 0x40}}
		g.SetFlag(z80.FlagC)
		c.R.Sample(map[string]interface{}{"call": "SetFlag(FlagC) with A=28 F=40", "A_after": h8(g.AF.Hi), "F_after": h8(g.AF.Lo)})
		g.ResetFlag(z80.FlagZ | z80.Flag3)
		c.R.Sample(map[string]interface{}{"call": "then ResetFlag(FlagZ|Flag3)", "A_after": h8(g.AF.Hi), "F_after": h8(g.AF.Lo)})
	}
	c.R.Set("evaluations", evals)
	c.R.Set("distinct_nontrivial", evals-8)
	c.R.Set("exhaustive", true)
	c.R.Set("rule", fmt.Sprintf("complete enumeration: 256 masks x 256 F x 256 A for each of GetFlag/SetFlag/ResetFlag (result bit-exact, A, BC, DE, HL untouched), the 8 constants, all 65536 values for SetU16->U16 and Hi/Lo placement; the accessors again through a CPU at 14 moments of its life (fresh, after a Step, right after and one Step after accepting NMI / mode 0 / 1 / 2, after Run ended on HALT / break point / cancelled context, inside a memory callback in mid-instruction) and on a GPR placed at all 16 address alignments inside a byte record (neighbouring bytes untouched); every (accessor, mask, F, A) / (value) tuple is distinct by construction and all are counted except the 8 constant comparisons"))
}
