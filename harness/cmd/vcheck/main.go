// vcheck dispatches one property check: vcheck -prop C01 -tier quick -seed 1
package main

import (
	"encoding/json"
	"flag"
	"fmt"
	"os"
	"sort"
	"sync"
	"time"

	"github.com/koron-go/z80/verif/mon"
	"github.com/koron-go/z80/verif/props"
)

func main() {
	prop := flag.String("prop", "", "property id (C01..C19)")
	tier := flag.String("tier", "quick", "quick | thorough")
	seed := flag.Int64("seed", 1, "PRNG seed (VERIF_SEED)")
	replay := flag.String("replay", "", "replay file")
	tmp := flag.String("tmp", "", "scratch directory")
	genpins := flag.String("genpins", "", "write pins/ from the images under this repo path and exit")
	worker := flag.String("worker", "", "internal: run as crash-isolated worker (spec)")
	selftest := flag.Bool("selftest", false, "run the oracle self-test only")
	flag.Parse()

	if *genpins != "" {
		if err := props.GenPins(*genpins); err != nil {
			fmt.Println("genpins:", err)
			os.Exit(2)
		}
		return
	}
	if *selftest {
		res := props.OracleSelfTest()
		fmt.Printf("oracle self-test: %d/%d hardware CRCs reproduced, %d model steps\n", res.OK, res.Cases, res.Steps)
		for _, f := range res.Fails {
			fmt.Println("  FAIL", f)
		}
		if res.OK != res.Cases || res.Cases == 0 {
			os.Exit(3)
		}
		return
	}
	if *worker != "" {
		os.Exit(props.RunWorker(*worker))
	}
	fn, ok := props.Registry[*prop]
	if !ok {
		ids := []string{}
		for k := range props.Registry {
			ids = append(ids, k)
		}
		sort.Strings(ids)
		fmt.Println("unknown property; known:", ids)
		os.Exit(2)
	}
	if *tier != "quick" && *tier != "thorough" {
		fmt.Println("tier must be quick or thorough")
		os.Exit(2)
	}
	self, _ := os.Executable()
	scratch := *tmp
	if scratch == "" {
		d, err := os.MkdirTemp("/var/tmp", "vcheck-")
		if err != nil {
			fmt.Println("cannot create scratch dir:", err)
			os.Exit(2)
		}
		scratch = d
		defer os.RemoveAll(d)
	}
	// Replay: single-Step witnesses (C01, C05, C14) are re-executed on their own;
	// for every other property all cases are pure functions of (seed, tier), so
	// the witness's seed and tier are restored and the workload is re-run; the
	// replay succeeds in reproducing when the same signature fires again.
	wantSig := ""
	replayArg := *replay
	if *replay != "" && !props.SingleStepReplay[*prop] {
		b, err := os.ReadFile(*replay)
		var doc struct {
			Seed      int64  `json:"seed"`
			Tier      string `json:"tier"`
			Signature string `json:"signature"`
		}
		if err != nil || json.Unmarshal(b, &doc) != nil || doc.Signature == "" {
			fmt.Println("cannot read replay file", *replay)
			os.Exit(2)
		}
		*seed, *tier, wantSig = doc.Seed, doc.Tier, doc.Signature
		replayArg = ""
		fmt.Printf("replay: re-running %s tier=%s seed=%d, looking for signature %q\n", *prop, *tier, *seed, wantSig)
	}
	rep := mon.NewReport(*prop, *tier, *seed, props.Levels[*prop])
	rep.Replay = *replay != ""
	ctx := &props.Ctx{Tier: *tier, Seed: *seed, Replay: replayArg, Self: self, Tmp: scratch, R: rep}
	stall := 900 * time.Second
	if v, err := time.ParseDuration(os.Getenv("VERIF_STALL")); err == nil && v > 0 {
		stall = v
	}
	props.StartStallWatchdog(*prop, stall)
	var deadUnits []string
	var deadMu sync.Mutex
	props.WorkerPanic = func(shard int, p interface{}) bool {
		// Every work unit owns its monitors; a unit can only die like this when something
		// wrote into them from outside (CPUs that share state behind the scenes, see C10)
		// or when the harness itself is wrong.  The unit is abandoned; if the run records
		// no violation the verdict is INCONCLUSIVE, never "held".
		deadMu.Lock()
		deadUnits = append(deadUnits, fmt.Sprintf("unit %d: %v", shard, p))
		deadMu.Unlock()
		fmt.Printf("NOTE property=%s work unit %d abandoned: %v\n", *prop, shard, p)
		return true
	}
	fn(ctx)
	if len(deadUnits) > 0 && rep.Violations() == 0 {
		rep.Inconclusive(fmt.Sprintf("%d work unit(s) of the monitor died without a recorded violation (first: %s)", len(deadUnits), deadUnits[0]))
	}
	code := rep.Finish()
	if wantSig != "" {
		if rep.SawSignature(wantSig) {
			fmt.Println("replay: the violation reproduces on the current tree")
		} else {
			fmt.Println("replay: that signature did not fire on the current tree")
		}
	}
	if *tmp == "" {
		os.RemoveAll(scratch)
	}
	os.Exit(code)
}
