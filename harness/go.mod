module github.com/koron-go/z80/verif

go 1.21

require github.com/koron-go/z80 v0.0.0

replace github.com/koron-go/z80 => /repo
