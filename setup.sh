#!/bin/bash
# MANIFEST.setup_cmd: offline build + tool sanity.  Nothing is kept that the
# checks need later (each ./check rebuilds from /repo's working tree).
set -eu
export GOFLAGS=-mod=mod GOPROXY=off GOSUMDB=off GOTOOLCHAIN=local
cd "$(dirname "$0")/harness"
cp /repo/go.sum go.sum 2>/dev/null || true
go version
go build -o /dev/null ./cmd/vcheck
go build -race -o /dev/null ./cmd/vcheck
go vet ./... >/dev/null 2>&1 || true
echo "setup ok"
