#!/bin/bash
# tools/runseed.sh <seed-id> [prop ...]   (default prop = the seed's own property)
# Applies /verif/seeded/<id>/patch.diff on a scratch worktree of /repo HEAD and
# runs the quick check(s) against it (VERIF_REPO), writing evidence/replays to a
# scratch VERIF_OUT so that /verif/evidence is untouched.  Prints DETECTED/MISSED.
set -u
ID="$1"; shift
PROPS=("$@"); [ ${#PROPS[@]} -eq 0 ] && PROPS=("${ID:0:3}")
TIER="${TIER:-quick}"
WT="/tmp/mut/run-$ID-$$"
mkdir -p /tmp/mut
flock /tmp/mut/.wtlock git -C /repo worktree add -q --detach "$WT" HEAD || exit 2
trap 'flock /tmp/mut/.wtlock git -C /repo worktree remove --force "$WT" >/dev/null 2>&1; rm -rf /tmp/vd/$ID-$$' EXIT
git -C "$WT" apply "/verif/seeded/$ID/patch.diff" || { echo "$ID: patch does not apply"; exit 2; }
for P in "${PROPS[@]}"; do
  OUT=$(VERIF_REPO="$WT" VERIF_OUT="/tmp/vd/$ID-$$" timeout 900 /verif/check "$P" "$TIER" 2>&1); rc=$?
  if [ $rc -eq 1 ] && echo "$OUT" | grep -q "^VIOLATION property=$P"; then
    echo "$ID vs $P: DETECTED  $(echo "$OUT" | grep -m1 'signature:' | cut -c1-150)"
  else
    echo "$ID vs $P: MISSED (rc=$rc) $(echo "$OUT" | tail -1 | cut -c1-160)"
  fi
done
