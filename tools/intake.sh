#!/bin/bash
# tools/intake.sh <srcroot> <prop> [x ...] — confirm seeds delivered by a sub-agent and run the property's quick check against them
ROOT="$1"; P="$2"; shift 2
XS=("$@"); [ ${#XS[@]} -eq 0 ] && XS=(c d e f)
for x in "${XS[@]}"; do
  [ -d "$ROOT/$P/$x" ] || { echo "$P$x: not delivered"; continue; }
  R=$(/verif/tools/confirm_seed.sh "$ROOT/$P/$x" "$P$x" 2>&1 | tail -1); echo "$R"
  case "$R" in *CONFIRMED*) timeout 1200 /verif/tools/runseed.sh "$P$x" | tee -a /verif/seeded/RESULTS-log.txt;; esac
done
