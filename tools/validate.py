#!/usr/bin/env python3
"""Validates MANIFEST.json and every evidence file against the given schemas (python3-vt has jsonschema)."""
import json, sys, glob, jsonschema
m=json.load(open('/verif/MANIFEST.json'))
jsonschema.validate(m, json.load(open('/root/.vp/MANIFEST.schema.json')))
es=json.load(open('/root/.vp/EVIDENCE.schema.json'))
bad=0
for c in m['checks']:
    f=c['evidence_file']
    try:
        e=json.load(open(f)); jsonschema.validate(e, es)
        assert e['level']==c['level_claimed']['category'], "level mismatch"
        assert e['property_id']==c['property_id']
    except Exception as ex:
        bad+=1; print("BAD", f, str(ex)[:200])
ids=[c['property_id'] for c in m['checks']]+[n['property_id'] for n in m.get('not_applicable',[])]
props=[json.loads(l)['id'] for l in open('/verif/properties.jsonl')]
assert sorted(ids)==sorted(props), "manifest does not cover all properties exactly once"
print("manifest ok; %d evidence files checked, %d bad"%(len(m['checks']),bad))
sys.exit(1 if bad else 0)
