#!/bin/bash
# tools/runall.sh [tier]  — runs every check once, prints one line per property
TIER="${1:-quick}"
cd "$(dirname "$0")/.."
rc_all=0
for i in 01 02 03 04 05 06 07 08 09 10 11 12 13 14 15 16 17 18 19; do
  OUT=$(timeout 7200 ./check C$i $TIER 2>&1); rc=$?
  echo "C$i rc=$rc $(echo "$OUT" | grep '^SUMMARY' | cut -d' ' -f4-)"
  [ $rc -ne 0 ] && { rc_all=1; echo "$OUT" | grep -v '^  witness' | tail -5; }
done
exit $rc_all
