#!/bin/bash
# tools/confirm_seed.sh <srcdir> <id>
# Confirms a seeded change independently (scratch worktree of /repo HEAD):
#   clean tree: demo passes; patched tree: compiles, unedited suite passes, demo FAILS.
# On success copies it to /verif/seeded/<id>/ and records what was run.
set -u
export GOFLAGS=-mod=mod GOPROXY=off GOSUMDB=off GOTOOLCHAIN=local
SRC="$1"; ID="$2"
WT="/tmp/mut/confirm-$ID"
rm -rf "$WT"; mkdir -p /tmp/mut
flock /tmp/mut/.wtlock git -C /repo worktree add -q --detach "$WT" HEAD || exit 2
cleanup() { git -C /repo worktree remove --force "$WT" >/dev/null 2>&1; }
trap cleanup EXIT
cd "$WT"
rundemo() {
  if [ -f "$SRC/demo_test.go" ]; then
    cp "$SRC/demo_test.go" "$WT/zz_seed_demo_test.go"
    go test -vet=off -count=1 -run TestSeedDemo . > "$WT/demo.log" 2>&1; rc=$?
    rm -f "$WT/zz_seed_demo_test.go"; return $rc
  elif [ -f "$SRC/demo.sh" ]; then
    bash "$SRC/demo.sh" > "$WT/demo.log" 2>&1; return $?
  fi
  return 99
}
rundemo; r1=$?
[ $r1 -eq 0 ] || { echo "$ID: REJECT demo does not pass on clean tree (rc=$r1)"; tail -5 "$WT/demo.log"; exit 1; }
git apply "$SRC/patch.diff" || { echo "$ID: REJECT patch does not apply"; exit 1; }
go build ./... > build.log 2>&1 || { echo "$ID: REJECT does not compile"; exit 1; }
go test -vet=off -count=1 ./... > suite.log 2>&1 || { echo "$ID: REJECT suite fails with patch"; tail -5 suite.log; exit 1; }
rundemo; r2=$?
[ $r2 -ne 0 ] || { echo "$ID: REJECT demo still passes with patch"; exit 1; }
DST="/verif/seeded/$ID"; mkdir -p "$DST"
cp "$SRC/patch.diff" "$DST/"
[ -f "$SRC/demo_test.go" ] && cp "$SRC/demo_test.go" "$DST/demo_test.go.txt"
[ -f "$SRC/demo.sh" ] && cp "$SRC/demo.sh" "$DST/"
python3 - "$SRC/meta.json" "$DST/meta.json" "$ID" <<'PY'
import json,sys
try: m=json.load(open(sys.argv[1]))
except Exception: m={}
m['id']=sys.argv[3]
m['confirmed']={"by":"tools/confirm_seed.sh in a scratch worktree of /repo HEAD",
 "clean_tree":"demo passes","patched_tree":"go build ./... ok; go test -vet=off -count=1 ./... passes (unedited suite); demo FAILS",
 "demo":"demo_test.go.txt is copied to the repo root as zz_seed_demo_test.go and run with: go test -vet=off -count=1 -run TestSeedDemo ."}
json.dump(m,open(sys.argv[2],'w'),indent=1)
PY
echo "$ID: CONFIRMED"
