#!/bin/bash
# tools/seedmatrix.sh [out] [jobs] — every seeded change against the quick check of its own
# property (or meta.json's check_with); <jobs> seeds at a time (flock serialises the git
# worktree bookkeeping, which is not safe to run concurrently)
cd /verif
OUT="${1:-/tmp/seedmatrix.log}"; J="${2:-3}"; : > "$OUT"
one() {
  d="$1"; id=$(basename $d)
  [ -f "$d/patch.diff" ] || return
  P=$(python3 -c "import json;m=json.load(open('$d/meta.json'));print(m.get('check_with') or m.get('property','${id:0:3}'))" 2>/dev/null || echo ${id:0:3})
  tools/runseed.sh $id $P 2>&1 | tail -1 >> "$OUT"
}
export -f one; export OUT
ls -d seeded/*/ | xargs -P "$J" -I{} bash -c 'one {}'
sort -o "$OUT" "$OUT"
