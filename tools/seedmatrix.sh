#!/bin/bash
# tools/seedmatrix.sh [out] — every seeded change against the quick check of its own property
cd /verif
OUT="${1:-/tmp/seedmatrix.log}"; : > "$OUT"
for d in seeded/*/; do
  id=$(basename $d)
  [ -f "$d/patch.diff" ] || continue
  P=$(python3 -c "import json;m=json.load(open('$d/meta.json'));print(m.get('check_with') or m.get('property','${id:0:3}'))" 2>/dev/null || echo ${id:0:3})
  tools/runseed.sh $id $P 2>&1 | tail -1 | tee -a "$OUT"
done
