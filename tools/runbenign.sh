#!/bin/bash
# tools/runbenign.sh <srcdir> <id> — apply a property-PRESERVING variant to a scratch worktree of
# /repo HEAD and run ALL quick checks against it: every VIOLATION is a false alarm to be
# analysed (or a real bug of the variant). Copies the variant to /verif/benign/<id>/.
set -u
export GOFLAGS=-mod=mod GOPROXY=off GOSUMDB=off GOTOOLCHAIN=local
SRC="$1"; ID="$2"
WT="/tmp/mut/benign-$ID-$$"
mkdir -p /tmp/mut
flock /tmp/mut/.wtlock git -C /repo worktree add -q --detach "$WT" HEAD || exit 2
trap 'git -C /repo worktree remove --force "$WT" >/dev/null 2>&1; rm -rf /tmp/vd/$ID-$$' EXIT
git -C "$WT" apply "$SRC/patch.diff" || { echo "$ID: patch does not apply"; exit 2; }
(cd "$WT" && go build ./... && go test -vet=off -count=1 ./... >/dev/null 2>&1) || { echo "$ID: REJECT (does not build or suite fails)"; exit 1; }
mkdir -p /verif/benign/$ID; cp "$SRC/patch.diff" "$SRC/meta.json" /verif/benign/$ID/ 2>/dev/null
LINE="$ID:"
for i in 01 02 03 04 05 06 07 08 09 10 11 12 13 14 15 16 17 18 19; do
  OUT=$(VERIF_REPO="$WT" VERIF_OUT="/tmp/vd/$ID-$$" timeout 1200 /verif/check C$i quick 2>&1); rc=$?
  if [ $rc -ne 0 ]; then
    LINE="$LINE C$i=rc$rc"
    echo "$OUT" | grep -m3 "signature:\|INCONCLUSIVE\|BUILD-FAILED" | sed "s/^/   [$ID C$i] /" | cut -c1-260
    mkdir -p /verif/benign/$ID; echo "$OUT" | grep -v "^  witness" | head -30 > /verif/benign/$ID/C$i.out
    # keep the first witness for analysis
    cp /tmp/vd/$ID-$$/replay/C$i-quick-seed1-1.json /verif/benign/$ID/C$i.witness.json 2>/dev/null
  fi
done
echo "$LINE done"
