#!/usr/bin/env python3
"""Regenerates /verif/MANIFEST.json from the table below (kept in one place so
that the manifest is always valid and current).  Usage: tools/mkmanifest.py"""
import json, os, sys

HERE = os.path.dirname(os.path.dirname(os.path.abspath(__file__)))

# id -> (category, technique, text, note, design_ref)
CHECKS = {
 "C01": ("exploration",
  "lock-step reference-model monitor on CPU.Step (differential oracle, bus/state monitors)",
  "Every one of the 930 implemented encodings is executed through the real CPU.Step from thousands (quick) / hundreds of thousands (thorough) of boundary-biased pre-states on a recording memory and device; an independent reference model (validated on every run against the 134 hardware CRCs of zexdoc/zexall) is stepped from the identical pre-state and all registers, flags, I, IFF1/2, IM, HALT, the full memory image and the bytes sent to ports are compared. Held on the executions observed; sampled, not exhaustive (pre-state space ~2^230 per encoding). Later rounds added: chains on one CPU object (value copies, accepted requests in between), the bundled memory types handed over directly, a pass with short / read-only memories, requests raised by callbacks during the instruction (DESIGN 12-20).",
  "Trusted: reference model ref/ (hardware-CRC self-test), tolerance table of DESIGN 2.3, Go toolchain.",
  "DESIGN.md §3 C01"),
 "C05": ("exploration",
  "bus monitor (recording Memory/IO) compared with the reference model's bus log per Step",
  "Same workload as C01; the recording Memory/IO logs every Get/Set/In/Out of each Step and the multiset of reads, multiset of writes and ordered port log are compared with the reference model's machine-cycle log. Held on the Steps observed. Includes the pass without I/O device, the short-memory / ROM pass and requests raised by callbacks during the instruction (the Step's traffic must be the instruction's alone).",
  "Trusted: reference model's bus log (manual machine-cycle tables); order inside a Step is not compared (multisets), as the property states.",
  "DESIGN.md §3 C05"),
 "C02": ("exploration",
  "complete enumeration of the A x operand x F cube through CPU.Step against definitional ALU oracle functions",
  "Thorough: the complete cube A(256) x operand(256) x F(256) is executed through the real CPU.Step for every one of the 559 encodings of the 8-bit ALU / rotate / shift / bit families (plus all 256 displacements for indexed forms) and judged by pure oracle functions (nibble sums, signed range checks, counting parity) shared with the hardware-validated reference model; the whole States value, the memory operand and the write count are compared. Quick: complete cube for one representative encoding per operation, 8 F values for the others. The space is finite and the thorough tier completes it (exhaustive: true).",
  "Trusted: oracle functions in ref/alu.go (validated by the 134 hardware CRCs); SCF/CCF and BIT-on-memory bits 3/5 masked as the property says.",
  "DESIGN.md §3 C02"),
 "C03": ("exploration",
  "enumeration of 16-bit operand pairs through CPU.Step against definitional oracle functions",
  "All 65536 first operands x a boundary lattice of second operands x carry/flag patterns for each of the 20 ADD/ADC/SBC encodings, doubling forms and INC/DEC ss/IX/IY complete (65536 values x 256 F); thorough adds all 2^32 pairs x 4 flag patterns for one encoding of each operation and all 2^32 pairs x 2 flag patterns for every other ss encoding (so every one of the 15 non-doubling encodings sees every operand pair). Oracle from definitions (17-bit sum, H on the low 12 bits, signed-range overflow, Z on the whole word); whole States compared.",
  "Trusted: ref.Add16/Adc16/Sbc16 (validated by the hardware CRCs). In the quick tier second operands are sampled on a lattice; not every incoming F is combined with every pair.",
  "DESIGN.md §3 C03"),
 "C11": ("exploration",
  "metamorphic twin monitor (DD form from S vs FD form from swap(S)), no model",
  "For all 255 second bytes after DD/FD and all 256 fourth bytes after DDCB/FDCB, thousands of boundary-biased states: the FD form run from the IX/IY-swapped state must give the swapped post-state, the same memory/port access sequence (except the prefix byte's value) and the same written image; each form is re-run with the other index register perturbed and must neither read nor write it; invalid-code warnings must agree pairwise. Also on DumbMemory directly, with both forms supplied by a mode-0 device, on a copy-on-write memory, and with a bus hook watching the other index register at every access.",
  "No reference model: a defect mirrored identically in both tables is C01's business. Cases where an operand aliases the prefix byte's own address are skipped (the law does not apply there).",
  "DESIGN.md §3 C11"),
 "C14": ("exploration",
  "state monitor on IR around every Step; direct counting rule plus reference model",
  "All 930 encodings x all 256 starting R x 5 I values x IFF2: the low 7 bits of R must advance by the number of opcode fetches of the decode table (2 or 3 accepted for DDCB/FDCB), bit 7 and I may change only through LD R,A / LD I,A, LD A,R / LD A,I value and flags by direct formula and by the reference model; multi-Step programs (block repeats 1..300, Steps on HALT) across the 7F->00 wrap. Also prefix chains (R advanced by the chain's length however it is split into Steps), short DumbMemory fetches, repeats without I/O device, repeating instructions patched to NOPs by the host.",
  "R across interrupt acceptance is not compared. Other registers sampled.",
  "DESIGN.md §3 C14"),
 "C15": ("exploration",
  "model-based monitor: random operation histories against a map model with full address sweeps",
  "Random operation sequences on DumbMemory/DumbIO (all boundary lengths) and MapMemory (Set/Get/Put incl. wrap/Clone/Clear/Equal against crafted neighbours), each result compared with a trivial map model and each sequence followed by a sweep of all 65536 addresses / 256 ports; panics are violations.",
  "Equal(nil map vs empty map) is not judged.",
  "DESIGN.md §3 C15"),
 "C16": ("exploration",
  "complete enumeration through the exported accessors",
  "All 256 masks x 256 F x 256 A for GetFlag/SetFlag/ResetFlag, the eight constants, all 65536 values for SetU16/U16/Hi/Lo: finite and enumerated completely in both tiers (exhaustive: true). The accessors are also driven through a CPU at 14 moments of its life and on a GPR at every address alignment.",
  "None beyond the Go toolchain.",
  "DESIGN.md §3 C16"),
 "C19": ("exploration",
  "output monitor on the built cmd binaries run on generated inputs",
  "The built cim2bin/cim2cas binaries are executed on generated images (boundary lengths incl. last byte exactly at FFFF, arbitrary contents, offsets 0..FFFF, names over all byte values incl. multi-byte UTF-8, default name) and the output file is compared byte for byte with the container layout written out from the property. Includes conversion in place (same path, symbolic / hard link) and stale pre-existing outputs of every size incl. exactly the right one.",
  "I/O error paths are outside the property.",
  "DESIGN.md §3 C19"),
 "C04": ("exploration",
  "closed-form specification monitor on CPU.Step (condition table, address arithmetic, stack layout) with bus log",
  "Every conditional opcode x all 256 F, DJNZ x all 256 B, relative jumps x all 256 offsets, and the unconditional transfers, each x hundreds/thousands of boundary samples (PC at FFFD..FFFF, SP at 0/1/2/FFFF, stack bytes overlapping the instruction): whole expected States, exact stack writes and permitted data reads from a 20-line closed form independent of the reference model; two-Step laws CALL;RET and PUSH;POP for all six pairs. Also: the same transfers supplied by a mode-0 device, on the bundled memory types directly, and pushes on a copy-on-write memory that replaces CPU.Memory during the first write.",
  "RETI IFF tolerance. Data sampled; control bits exhaustive.",
  "DESIGN.md §3 C04"),
 "C06": ("exploration",
  "abstract interrupt-controller model stepped alongside CPU.Step; exhaustive control product plus seeded histories on an instruction tape",
  "All 48 combinations of request type x IM x IFF1 x IFF2 x running/halted with boundary data (all 256 vector bytes, 8 RST + CALL in mode 0, PC=FFFF, SP wrap, stack bytes meeting PC) judged by the controller model transcribed from the property (consumption, handler address, IFF1/IFF2, SP, stack bytes, no program fetch; refused = identical to the twin Step); tens of thousands of histories over EI/DI/RETN/RETI/HALT/LD A,I/IM n/raise NMI/raise INT with nesting depth <= 3; handler-notification sweep over all 930 encodings. Further phases: all 1786 openings for handler notifications; mode 0 with ANY implemented instruction supplied by the device against the reference model; 2..5 acceptances in a row on one CPU object with the vector table rewritten / the memory object replaced in between.",
  "EI-delay and RETI-IFF tolerances; mode-0 pushed value is C07's subject; odd mode-2 vectors accept masked or unmasked table address.",
  "DESIGN.md §3 C06"),
 "C07": ("fault_enumeration",
  "twin execution with an interrupt injected at every Step boundary of generated programs (fault enumeration), return-address monitor at acceptance",
  "Hundreds (quick) / thousands (thorough) of generated register-transparent programs x 6 interrupt kinds x EVERY injection point k=0..N+2 (incl. between block repetitions, inside DI sections, parked on HALT): the interrupted run must end with the same registers, flags, IFF, memory and device traffic as the undisturbed run, handler run exactly once; the address found at SP in the accepting Step must be the first unexecuted instruction. The mode-0 resume defect is a recorded known finding (compensated continuation keeps the rest of mode 0 under test).",
  "Handler transparent by construction. Known finding C07/im0-resume=pc+len(data) (test-pinned, cannot be repaired with the suite unedited).",
  "DESIGN.md §3 C07"),
 "C08": ("exploration",
  "twin monitor: Run vs a Step-driven twin under the property's stop rule, full ordered bus logs, logical watchdog",
  "Thousands of configurations (generated terminating programs incl. wraparound and HALT-at-FFFF layouts x breakpoint-set classes x stale HALT x callback-raised NMI/INT): after every Run call (continuing after each breakpoint stop, then once more on the halted CPU) return value, States incl. R, HALT, pending request and the complete ordered memory and port logs are compared with a twin CPU driven by Step under the stop rule; requests raised by callbacks must be pending at the next boundary.",
  "Step itself is judged by C01/C05; the watchdog is the twin's access count (no wall clock).",
  "DESIGN.md §3 C08"),
 "C09": ("exploration",
  "whole-operation functional specification (loops over a byte array) vs Step-by-Step execution with per-Step bus monitor",
  "Tens of thousands of whole block operations (counts 0,1,2,255,256,65535,random; overlapping, self-covering and wrapping ranges; A absent/present/at the last element) run to completion (up to 65536 Steps): per Step exactly one element and PC on/after the instruction; final registers, documented flags, memory image, port log and Step count compared with a direct loop specification.",
  "Block-I/O flags documented-or-silicon; a self-overwriting operation is judged on the prefix.",
  "DESIGN.md §3 C09"),
 "C10": ("exploration",
  "per-Step digest monitors (determinism, rebuild-from-public-state at every boundary vs hidden-state copy, memory-type independence) under the Go race detector",
  "Generated programs with callback-raised interrupts: two runs equal per Step; at EVERY Step boundary a CPU rebuilt from copies of States+memory+device+pending request runs against a value copy of the original (which keeps hidden per-instance state), with and without a fresh request; 2/4/8/16 goroutines each driving its own CPU against the sequential baseline; alternating CPUs; the same program on DumbMemory/MapMemory/tinycpm.Memory handed over directly; race reports collected (halt_on_error=0) and attributed to z80 frames. Also: the memory object replaced by an equal one during the run, device callbacks that panic and are recovered, host-owned request objects re-assigned at every firing, constructor independence, CPUs without I/O device, no-op handlers on one side.",
  "Race detector finds only races that the executed interleavings expose.",
  "DESIGN.md §3 C10"),
 "C12": ("exploration",
  "crash-isolated worker processes with recover(), logical bus-access watchdogs and the log monitor",
  "All 65536 two-byte openings (and all DDCB/FDCB fourth bytes) as single Steps; arbitrary byte programs on every memory/IO configuration class (short DumbMemory with the program cut off, MapMemory, nil/short IO, handed over directly or monitored), arbitrary States (IM out of range) and Interrupt values (any Type, empty/long data, injected at random Steps, at FFFF, from inside callbacks); Run on generated programs must return when a Step-driven twin executes a HALT. Invalid-opcode Steps must only consume their bytes. Run cases use background, live, already cancelled, long-expired and cancelled-during-the-HALT-fetch contexts; every 16th run case Steps 4 CPUs from 4 goroutines over unsupported encodings.",
  "Hangs that make no bus access are caught only by a 2 x 20 s no-progress monitor in the worker (last resort).",
  "DESIGN.md §3 C12"),
 "C13": ("exploration",
  "race detector + logical promptness counter in bus callbacks + Step-boundary twin + goroutine-profile accounting",
  "Thousands of Run calls over loop programs (incl. loops of prefixed instructions only, varying starting R) x cancellation modes (inside the bus callback at chosen accesses, from another goroutine, before the call, expired/1 ms deadlines, cancelled parent, never) x GOMAXPROCS 1/2/16: error identity, at most 3000 further bus accesses once the context is done (a count, each followed by a yield/1 ms sleep), final state equal to a whole number of Steps of a twin, no goroutine with z80 frames left after each batch (before and after cancelling the batch's contexts), zero race reports. Modes include contexts with causes, device panics and runtime.Goexit in mid-Run; every other call re-uses one CPU object.",
  "Promptness bound is logical (accesses), the sleeps only hand over the processor.",
  "DESIGN.md §3 C13"),
 "C17": ("exploration",
  "complete comparison of the linked Go tables with records harvested from the canonical images (static decode + walk on the emulator) and pinned digests",
  "Finite and compared completely (exhaustive: true): image digests vs pins; pointer table located by decoding and by running the canonical program to its own end-of-list test (67 arrivals each); all 65 bytes + description of each of the 2 x 67 cases; no case missing or duplicated; Case.Maxes/Iter.Status against the harness's own port of the counter/shifter. The comparison is repeated in a second binary built with -race (build configuration), and the tables are checked not to share storage (append).",
  "pins/ holds digests and records of the pristine images.",
  "DESIGN.md §3 C17"),
 "C18": ("exploration",
  "console/warning/stack monitors around tinycpm runs with breakpoints on every call's return address; end-to-end runs of the built cmd/zexdoc",
  "Thousands of generated programs of mixed function-2/function-9 calls (strings 0..4096 over every byte but '$', page-straddling addresses), OUT/IN to other ports, JP 0: console bytes in program order, warnings only for non-console traffic, SP and caller code intact after each call, halted at FF03; a sample also through the built binary (stdout, stderr, exit status). Machines are also built from a zero-value IO, a by-value copy, through Memory.LoadFile; one writer refuses a single Write.",
  "Unsupported BDOS functions have no specified outcome.",
  "DESIGN.md §3 C18"),
}

NOT_YET = "check not built yet in this round (work in progress; see DESIGN.md §3 for the planned monitor)"

def main():
    props = [json.loads(l) for l in open(os.path.join(HERE, "properties.jsonl"))]
    checks, na = [], []
    for p in props:
        pid = p["id"]
        if pid in CHECKS:
            cat, tech, text, note, ref = CHECKS[pid]
            checks.append({
                "property_id": pid,
                "quick_cmd": "./check %s quick" % pid,
                "thorough_cmd": "./check %s thorough" % pid,
                "evidence_file": "/verif/evidence/%s.json" % pid,
                "replay_cmd_template": "./check %s quick --replay {path}" % pid,
                "engine": "vcheck",
                "level_claimed": {"category": cat, "text": text, "design_ref": ref},
                "level_note": note,
                "technique": tech,
            })
        else:
            na.append({"property_id": pid, "reason": NOT_YET})
    m = {
        "version": 1,
        "setup_cmd": "./setup.sh",
        "hooks": {
            "guard": "verif",
            "enable": "go build -tags verif (harness module github.com/koron-go/z80/verif with replace github.com/koron-go/z80 => /repo); no source hooks are needed: the public Memory/IO/handler/log/context boundary observes everything the properties talk about",
            "baseline_off_cmd": "cd /repo && GOFLAGS=-mod=mod GOPROXY=off GOSUMDB=off GOTOOLCHAIN=local go test -json -vet=off -count=1 -timeout 25m ./...",
            "source_commits": [],
            "add_only": True,
        },
        "engines": [{
            "name": "vcheck",
            "path": "/verif/harness",
            "serves_properties": [c["property_id"] for c in checks],
            "kind_free_text": "Go harness: recording bus monitors, reference-model oracle, twin/metamorphic monitors, race detector, crash-isolated workers",
        }],
        "checks": checks,
        "not_applicable": na,
        "notes": "All checks: ./check <id> <quick|thorough>; VERIF_SEED selects the PRNG seed; exit 0 held / 1 violation / 2 build failure / 3 inconclusive. fix: commits in /repo: 7ab483f, 163be93, c6b24ce, af8bac7, 88f7899 (see known_findings.json). 304 seeded changes (seeded/) and 114 property-preserving variants (benign/) document what the checks catch and what they stay silent on (DESIGN.md 12-23).",
    }
    json.dump(m, open(os.path.join(HERE, "MANIFEST.json"), "w"), indent=1)
    print("MANIFEST.json: %d checks, %d not_applicable" % (len(checks), len(na)))

if __name__ == "__main__":
    main()
