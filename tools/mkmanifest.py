#!/usr/bin/env python3
"""Regenerates /verif/MANIFEST.json from the table below (kept in one place so
that the manifest is always valid and current).  Usage: tools/mkmanifest.py"""
import json, os, sys

HERE = os.path.dirname(os.path.dirname(os.path.abspath(__file__)))

# id -> (category, technique, text, note, design_ref)
CHECKS = {
 "C01": ("exploration",
  "lock-step reference-model monitor on CPU.Step (differential oracle, bus/state monitors)",
  "Every one of the 930 implemented encodings is executed through the real CPU.Step from thousands (quick) / hundreds of thousands (thorough) of boundary-biased pre-states on a recording memory and device; an independent reference model (validated on every run against the 134 hardware CRCs of zexdoc/zexall) is stepped from the identical pre-state and all registers, flags, I, IFF1/2, IM, HALT, the full memory image and the bytes sent to ports are compared. Held on the executions observed; sampled, not exhaustive (pre-state space ~2^230 per encoding).",
  "Trusted: reference model ref/ (hardware-CRC self-test), tolerance table of DESIGN 2.3, Go toolchain.",
  "DESIGN.md §3 C01"),
 "C05": ("exploration",
  "bus monitor (recording Memory/IO) compared with the reference model's bus log per Step",
  "Same workload as C01; the recording Memory/IO logs every Get/Set/In/Out of each Step and the multiset of reads, multiset of writes and ordered port log are compared with the reference model's machine-cycle log. Held on the Steps observed.",
  "Trusted: reference model's bus log (manual machine-cycle tables); order inside a Step is not compared (multisets), as the property states.",
  "DESIGN.md §3 C05"),
}

NOT_YET = "check not built yet in this round (work in progress; see DESIGN.md §3 for the planned monitor)"

def main():
    props = [json.loads(l) for l in open(os.path.join(HERE, "properties.jsonl"))]
    checks, na = [], []
    for p in props:
        pid = p["id"]
        if pid in CHECKS:
            cat, tech, text, note, ref = CHECKS[pid]
            checks.append({
                "property_id": pid,
                "quick_cmd": "./check %s quick" % pid,
                "thorough_cmd": "./check %s thorough" % pid,
                "evidence_file": "/verif/evidence/%s.json" % pid,
                "replay_cmd_template": "./check %s quick --replay {path}" % pid,
                "engine": "vcheck",
                "level_claimed": {"category": cat, "text": text, "design_ref": ref},
                "level_note": note,
                "technique": tech,
            })
        else:
            na.append({"property_id": pid, "reason": NOT_YET})
    m = {
        "version": 1,
        "setup_cmd": "./setup.sh",
        "hooks": {
            "guard": "verif",
            "enable": "go build -tags verif (harness module github.com/koron-go/z80/verif with replace github.com/koron-go/z80 => /repo); no source hooks are needed: the public Memory/IO/handler/log/context boundary observes everything the properties talk about",
            "baseline_off_cmd": "cd /repo && GOFLAGS=-mod=mod GOPROXY=off GOSUMDB=off GOTOOLCHAIN=local go test -json -vet=off -count=1 -timeout 25m ./...",
            "source_commits": [],
            "add_only": True,
        },
        "engines": [{
            "name": "vcheck",
            "path": "/verif/harness",
            "serves_properties": [c["property_id"] for c in checks],
            "kind_free_text": "Go harness: recording bus monitors, reference-model oracle, twin/metamorphic monitors, race detector, crash-isolated workers",
        }],
        "checks": checks,
        "not_applicable": na,
        "notes": "All checks: ./check <id> <quick|thorough>; VERIF_SEED selects the PRNG seed; exit 0 held / 1 violation / 2 build failure / 3 inconclusive. fix: commits in /repo: 7ab483f, 163be93, c6b24ce (see known_findings.json).",
    }
    json.dump(m, open(os.path.join(HERE, "MANIFEST.json"), "w"), indent=1)
    print("MANIFEST.json: %d checks, %d not_applicable" % (len(checks), len(na)))

if __name__ == "__main__":
    main()
